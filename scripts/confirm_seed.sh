#!/bin/bash
# Development aid: confirm a seeded change in its scratch worktree:
#   demo passes without the patch, fails with it; the pinned suite passes with it.
# usage: confirm_seed.sh <worktree> <outdir> [crate] [features]
wt="$1"; out="$2"; crate="${3:-crux_core}"; feats="$4"
export RUSTUP_TOOLCHAIN=stable-x86_64-unknown-linux-gnu CARGO_NET_OFFLINE=true CARGO_TARGET_DIR=$wt/target
cd "$wt" || exit 2
git checkout -q -- . ; git clean -fdq -e target
demos=$(ls "$out"/*.rs 2>/dev/null)
[ -z "$demos" ] && { echo "no demo .rs in $out"; exit 2; }
names=""
mkdir -p "$crate/tests"; for d in $demos; do cp "$d" "$crate/tests/"; names="$names --test $(basename "$d" .rs)"; done
fa=""; [ -n "$feats" ] && fa="--features $feats"
r0=$(cargo nextest run -p "$crate" $fa $names --offline --no-fail-fast 2>&1 | grep -E "Summary" | tail -1)
echo "demo WITHOUT patch: $r0"
git apply "$out/patch.diff" || { echo "PATCH DOES NOT APPLY"; exit 2; }
r1=$(cargo nextest run -p "$crate" $fa $names --offline --no-fail-fast 2>&1 | grep -E "Summary" | tail -1)
echo "demo WITH patch:    $r1"
for d in $demos; do rm -f "$crate/tests/$(basename "$d")"; done
r2=$(cargo nextest run --workspace --no-fail-fast --offline 2>&1 | grep -E "Summary" | tail -1)
echo "suite WITH patch:   $r2"
git checkout -q -- . ; git clean -fdq -e target
