#!/usr/bin/env python3
"""Development aid (not a registered command): prints the brief handed to an independent
sub-agent that is asked for property-breaking changes.  The agent gets the property text,
a scratch worktree and the *names* of changes planted in earlier rounds (so that it looks
elsewhere) -- nothing else from /verif.

  mk_agent_prompt.py <ID> <round-letter> <worktree> <outdir>
"""
import json, os, sys
VERIF = os.path.dirname(os.path.dirname(os.path.abspath(__file__)))
pid, rnd, wt, out = sys.argv[1:5]
prop = next(json.loads(l) for l in open(os.path.join(VERIF, "properties.jsonl")) if json.loads(l)["id"] == pid)
earlier = sorted(d for d in os.listdir(os.path.join(VERIF, "seeded")) if d.startswith(pid))
print(f"""You are helping to test a verification effort for the Rust project redbadger/crux (an Elm-style
cross-platform app framework: crux_core with the Command executor, the legacy capability executor,
the FFI bridge; capability crates crux_http, crux_kv, crux_time, crux_platform; crux_cli codegen).

You have your own scratch git worktree of the repository at {wt} . Work ONLY there (never touch
/repo or /verif, never read /verif). Write your deliverables to {out}/1/ and {out}/2/ (create them).

The semantic property under test ({pid}): "{prop['title']}"

  {prop['statement']}

  Quantified over: {prop['quantifier']['text']}

TASK: produce TWO different, independent changes (mutations) to the crux source code, each of which
BREAKS this property, while
  (a) the workspace still compiles,
  (b) the repository's existing test suite still passes completely (146 tests), and
  (c) the breakage needs something SPECIFIC to manifest: a particular interleaving of threads, a
      fault or cancellation at a particular point, a multi-step sequence of operations, an unusual
      input (boundary value, rare header, odd encoding), or two cooperating sites that each look
      fine alone. NOT something ordinary use would expose at once.
Make them realistic: the kind of edit a maintainer might make in a refactoring, optimisation or
"simplification" (narrowing a lock scope, reordering two statements, caching something, an off-by-one
in a rarely hit branch, a fast path, replacing a data structure, dropping a "redundant" check).
Each change should be small (typically < 40 changed lines) and touch only non-test source files under
crux_core/src, crux_http/src, crux_kv/src, crux_time/src, crux_platform/src, crux_macros/src or
crux_cli/src (whichever the property is anchored in). Do not touch tests, Cargo files or anything
behind the `crux_verif` feature (those are instrumentation hooks; leave them and their call sites as
they are, though you may move code around them).

Changes planted in EARLIER rounds for this property (by name; look for something DIFFERENT, in a
different function or mechanism where possible): {', '.join(earlier) if earlier else '(none)'}

For each of the two changes deliver, in {out}/<n>/ :
  * patch.diff   - `git diff` of the change against the worktree's HEAD (must apply with `git apply`
                   to a clean checkout of the same commit)
  * a demonstration: one Rust integration test file <name>.rs written so that it can be copied to
    <crate>/tests/<name>.rs of the crate it exercises (say which crate in notes.md, and which cargo
    features it needs, if any), which PASSES on the unchanged tree and FAILS with the change applied.
    It should fail because the property is violated (assert on observable behaviour through the
    public API), not because of something incidental.
  * notes.md     - what the change is, which clause of the property it breaks, what it needs in order
                   to manifest, and the exact commands you ran with their outcomes.

How to build and test here (no network; these exact environment settings are needed):
  export RUSTUP_TOOLCHAIN=stable-x86_64-unknown-linux-gnu CARGO_NET_OFFLINE=true
  export CARGO_TARGET_DIR={wt}/target CARGO_BUILD_JOBS=4
  cd {wt}
  cargo nextest run --workspace --no-fail-fast --offline          # the existing suite: 146 tests
  cargo nextest run -p <crate> --test <name> --offline            # your demonstration
Use at most 4 build jobs (other work shares this machine). No new dependencies can be fetched: only
crates already used by the workspace are available (futures, serde, serde_json, bincode, anyhow,
thiserror, async-std's absence etc. -- check the crate's Cargo.toml [dependencies]/[dev-dependencies]).

Before you finish, for EACH change verify yourself, from a clean checkout (`git checkout -- . &&
git clean -fdq -e target`): demonstration passes without the patch; with the patch applied the
demonstration fails AND the full existing suite passes (146 passed). Leave the worktree clean
(`git checkout -- .`, demonstrations removed) when done. If you cannot find a second change that
satisfies everything, deliver one and say so. Your final message: two short paragraphs (one per
change) naming the file/function changed, what it needs to manifest, and the verified outcomes.
""")
