"""Per-property configuration of the ./check driver: lanes, floors, evidence rule."""

def cmdlab(prop, wq=4, wt=16, tq=600, tt=3600):
    return {"name": "cmdlab", "pkg": "cmdlab", "bin": "cmdlab",
            "workers": {"quick": wq, "thorough": wt},
            "timeout": {"quick": tq, "thorough": tt}}

CMD_ASSUME = [
    "the reference model (harness/cmdlab/src/model.rs) is the intended semantics; it is order-insensitive between concurrent parts and the generator only emits programs for which that is well defined",
    "release profile (debug assertions off): Core::resolve's debug_assert on double resolution is a developer aid, the documented Err is what is checked",
    "shell behaviour restricted to what the API documents: ids of outstanding requests, response kinds matching the operation",
]

ALL_CONS = ["Done", "Event", "Notify", "Chain.Request", "Chain.Stream", "Then", "And", "All",
            "MapEvent", "MapEffect", "FromInto", "Async", "Request.then_request", "Stream.then_request",
            "Request.then_stream", "Stream.then_stream", "Request.map", "Stream.map",
            "i.Req", "i.Next", "i.Emit", "i.Spawn", "i.Join", "i.JoinAll", "i.Select", "i.Yield", "i.Notify"]

PROPS = {
    "C01": {
        "level_text": 'held on N executions: every core call of every generated (program, schedule) returned exactly the effects the reference model predicts, applied exactly the predicted events, and left both executor queues and both channels empty (read through the crux_verif hook). Exploration is the right level: the quantifier is over programs x schedules, which is unbounded; the oracle is exact per execution.',
        "level_note": 'reference model + generator constraints (DESIGN.md §3.1); hooks only read queue lengths',
        "technique": 'reference-model monitor over random programs x shell schedules; executor-queue hook at every call return',
        "level": "exploration",
        "rule": "random program (full AST incl. follow-up programs returned by update for emitted events) x random shell schedule through Core (command API via both effect macros, and the legacy capability API); per call: returned effects == model, view log delta == model, executor queues empty (hook); non-trivial = at least 3 core calls, 2 effects and 1 event; distinct = hash of (program, history)",
        "lanes": [cmdlab("C01")],
        "floors": {"quick": {"evaluations": 3000, "distinct_nontrivial": 500, "steps": 10000},
                   "thorough": {"evaluations": 200000, "distinct_nontrivial": 30000}},
        "must_cover": {"constructors": ALL_CONS + ["EventThen", "i.EmitThen"], "hosts": ["CoreLegacy"]},
        "assumptions": CMD_ASSUME,
    },
    "C02": {
        "level_text": 'held on N executions: every resolution with a unique value produced exactly the continuation event of the request it was given to (or none when the model says the consumer is gone), and every resolution returned Ok/Err as the declared arity demands, on the typed, legacy and serialized paths.',
        "level_note": 'reference model; on the bridge a second response to a one-shot id is a documented precondition violation and is not generated',
        "technique": 'unique-value ledger + arity table monitor over random and look-alike workloads',
        "level": "exploration",
        "rule": "random programs with many simultaneously outstanding one-shot, stream and notification requests x histories with out-of-order, repeated and late resolutions, on the typed path (Request::resolve, Core::resolve), the legacy futures and the serialized bridges; unique values identify the continuation that ran; plus look-alike workloads (equal operations) checked by a value ledger; non-trivial = at least 3 steps, 2 effects, 1 event; distinct = hash of (program, history)",
        "lanes": [cmdlab("C02")],
        "floors": {"quick": {"evaluations": 2000, "distinct_nontrivial": 400, "resolutions": 5000, "repeated_resolutions": 100, "late_resolutions": 50, "notification_resolutions": 50, "stream_items": 500},
                   "thorough": {"evaluations": 100000, "distinct_nontrivial": 20000}},
        "must_cover": {"hosts": ["Direct", "CoreLegacy", "BridgeBincode", "BridgeJson"]},
        "assumptions": CMD_ASSUME,
    },
    "C03": {
        "level_text": "held on N executions: the harness app's update never observed its re-entrancy flag set, every emitted event appears exactly once in the append-only model log, per-task order is emission order, and the view after each call contains every applied event.",
        "level_note": "the emitting side is recorded by the script interpreter at send time (producer boundary), the applying side by the app's own log",
        "technique": "app-side re-entrancy flag + append-only log monitor compared with the model's emission ledger",
        "level": "exploration",
        "rule": "script-heavy random programs emitting bursts of events through Core; app-side monitor (re-entrancy flag, append-only log) + model: exactly-once, per-task emission order, view reflects every applied event; non-trivial = at least 3 core calls, 2 effects and 1 event; distinct = hash of (program, history)",
        "lanes": [cmdlab("C03")],
        "floors": {"quick": {"evaluations": 3000, "distinct_nontrivial": 500, "events_observed": 5000},
                   "thorough": {"evaluations": 200000, "distinct_nontrivial": 30000}},
        "must_cover": {"hosts": ["CoreLegacy"]},
        "assumptions": CMD_ASSUME,
    },
    "C04": {
        "level_text": 'held on N executions: for every generated expression and history the per-step multiset of outputs, marker trails, per-task event order and is_done equal the reference semantics. Algebraic laws are covered because neutral wrappers and permuted arguments are compared against the same model.',
        "level_note": "reference model is the statement of 'what they say'; readings fixed by design-phase probes are listed in DESIGN.md §3.1",
        "technique": 'reference-model monitor on the Command object (effects/events/is_done and Stream polling)',
        "level": "exploration",
        "rule": "random combinator / builder-chain / async-script expression x random resolve/drop/abort history on the command itself (effects()/events()/is_done() and Stream polling); per step multiset of outputs, trails of map_effect/map_event markers, per-task event order and is_done compared with the reference model; non-trivial = at least 3 steps, 2 effects and 1 event; distinct = hash of (program, history)",
        "lanes": [cmdlab("C04")],
        "floors": {"quick": {"evaluations": 5000, "distinct_nontrivial": 1000, "steps": 20000},
                   "thorough": {"evaluations": 400000, "distinct_nontrivial": 50000}},
        "must_cover": {"constructors": ALL_CONS + ["Collect", "Abortable"]},
        "assumptions": CMD_ASSUME,
    },
    "C05": {
        "level_text": 'held on N executions: up to 8 hosts ran the same program and history in lock-step and each matched the model of its hosting mode at every step (hence each other); the stream-polled host additionally proves that its waker was woken whenever output became available (no lost wake-up between layers).',
        "level_note": 'differential: the model is only the tie-breaker; bridges cannot drop requests, so histories with drops run on the typed hosts only',
        "technique": 'lock-step differential hosts + wake monitor',
        "level": "exploration",
        "rule": "one program and one history on up to 8 hosts in lock-step (direct, stream-polled with a wake monitor, 1-10 neutral wrapper layers, Core via both macros, bincode and JSON bridges); every host compared per step with the model of its hosting mode, i.e. pairwise equality; non-trivial = at least 3 steps, 2 effects and 1 event; distinct = hash of (program, history)",
        "lanes": [cmdlab("C05")],
        "floors": {"quick": {"evaluations": 1200, "distinct_nontrivial": 300, "host_runs": 6000},
                   "thorough": {"evaluations": 80000, "distinct_nontrivial": 15000}},
        "must_cover": {"hosts": ["Direct", "StreamHost", "BridgeBincode", "BridgeJson"]},
        "assumptions": CMD_ASSUME,
    },
    "C06": {
        "level_text": 'held on N injections: after an abort / drop injected at a random point of a random history, no output attributable to the cancelled work appeared, siblings matched the model, a root-aborted command reported done, and late resolutions neither panicked (panic trap) nor produced anything.',
        "level_note": 'timing of nested sweeps is not compared (not stated by the property)',
        "technique": 'cancellation injection into random histories, reference model with cancellation, panic trap',
        "level": "fault_enumeration",
        "rule": "random programs with abort handles, join-handle aborts and droppable requests x histories that inject abort / drop at random points (before first poll, while pending, between stream items, after completion, repeatedly) followed by late resolutions; after the injection: no output attributable to cancelled work, siblings == model, root abort => done, late resolve has no effect and does not panic; non-trivial = at least one abort or drop followed by later actions, 2 effects; distinct = hash of (program, history)",
        "lanes": [cmdlab("C06")],
        "floors": {"quick": {"evaluations": 2500, "distinct_nontrivial": 500, "aborts": 500, "drops": 1500, "late_resolutions": 100, "aborts_before_first_poll": 5},
                   "thorough": {"evaluations": 150000, "distinct_nontrivial": 25000}},
        "assumptions": CMD_ASSUME + ["the time at which a *nested* aborted command or a join-handle-aborted task is swept is not specified by the property; is_done is not compared while such a sweep is pending"],
    },
    "C07": {
        "level_text": 'held on N executions except the listed known finding: is_done() and the live-task count equal the wake-source model after every step, including the end-of-history rule (everything resolved or dropped => done).',
        "level_note": 'wake-source model: a task is discarded when everything it is currently blocked on is gone',
        "technique": 'wake-source model vs is_done()/live-task hook after every step',
        "level": "exploration",
        "rule": "script-heavy random programs (requests, streams, join, select, join handles, self-waking futures incl. wake-then-drop) x resolve-some/drop-others histories ending in resolve-or-drop of everything; is_done and the live-task count (hook) compared with the wake-source model after every step; non-trivial = at least 3 steps and 2 effects with is_done compared at least twice; distinct = hash of (program, history)",
        "lanes": [cmdlab("C07")],
        "floors": {"quick": {"evaluations": 5000, "distinct_nontrivial": 1000, "is_done_compared": 20000},
                   "thorough": {"evaluations": 400000, "distinct_nontrivial": 50000}},
        "assumptions": CMD_ASSUME,
    },
    "C09": {
        "level_text": 'held on N executions: four bridges and a typed twin agreed per call on decoded effect requests and view, ids of outstanding requests were pairwise distinct, and unique response values surfaced in the continuation of the request issued under that id.',
        "level_note": "decoding uses serde with the bridge's documented bincode options / serde_json",
        "technique": 'typed twin vs bincode/JSON bridges in lock-step, id ledger',
        "level": "exploration",
        "rule": "one program and one history (events, out-of-order responses, many requests outstanding) on a typed Core twin and four bridges (bincode/JSON x attribute/derive effect macro) in lock-step; decoded effect requests and view must equal the twin's, ids of outstanding requests distinct, a response under id i resumes the request issued under i (unique values); non-trivial = at least 3 calls, 2 effects and 1 event; distinct = hash of (program, history)",
        "lanes": [cmdlab("C09")],
        "floors": {"quick": {"evaluations": 1200, "distinct_nontrivial": 300, "host_runs": 6000, "wide_cases": 4, "events_over_1MiB_sent_over_a_bridge": 4},
                   "thorough": {"evaluations": 80000, "distinct_nontrivial": 15000, "wide_cases": 100}},
        "must_cover": {"hosts": ["BridgeBincode", "BridgeJson"]},
        "assumptions": CMD_ASSUME,
    },
}

def schedlab(mode, scen_q, scen_t, wq, wt, toolchain="stable", tiers=("quick", "thorough"), tq=900, tt=5400):
    return {"name": f"schedlab-{mode}" + ("" if toolchain == "stable" else f"-{toolchain}"), "pkg": "schedlab", "bin": "schedlab",
            "toolchain": toolchain, "tiers": tiers,
            "workers": {"quick": wq, "thorough": wt},
            "timeout": {"quick": tq, "thorough": tt},
            "args": {"quick": {"mode": mode, "scenarios": scen_q}, "thorough": {"mode": mode, "scenarios": scen_t}}}

def schedlab_events(mode, scen_q, scen_t, wq, wt):
    l = schedlab(mode, scen_q, scen_t, wq, wt)
    l["name"] = f"schedlab-events-{mode}"
    for t in l["args"]:
        l["args"][t]["families"] = "events"
    return l

PROPS["C03"]["lanes"] += [schedlab_events("forced", 150, 4000, 4, 16), schedlab_events("random", 3000, 200000, 4, 16)]
PROPS["C03"]["technique"] += "; two-thread forced / randomised schedules (bursts of events, abort races) with a model-free conservation monitor (emission log at send_event vs the app's append-only log)"
PROPS["C03"]["rule"] += "; plus concurrent lanes: a task emitting a burst of events while a second thread resolves / starts / aborts (forced preemption at every hook point of either call, and randomised yields): emitted == applied exactly once in per-task order in every interleaving"
PROPS["C03"]["floors"]["quick"]["abort_race_runs"] = 500
PROPS["C03"]["floors"]["quick"]["forced_schedules"] = 3000

PROPS["C08"] = {
    "level": "exploration",
    "level_text": "held on N concurrent executions: for scenarios whose concurrent operations commute in the reference model, every explored interleaving (all single preemptions of each operation at every crux_verif hook point with the peer running meanwhile; randomised yields at hook points with 2-4 threads; plain stress, also under ThreadSanitizer) produced exactly the union of effects, the event log (with per-task order), the resolve verdicts and the final state of a sequential execution, left the core quiescent, and kept every subscription alive (sequential suffix compared with the model). Schedules are sampled / enumerated at hook granularity, not exhausted.",
    "level_note": "interleavings inside crossbeam / futures internals are only reached by the stress, TSan and Miri lanes; the controller only blocks threads at hook points (places the OS may preempt anyway) and releases a held thread as soon as its peer waits for it",
    "technique": "forced single-preemption schedules at hook points (crux_verif points, and waker clone / wake / drop of a foreign-waker adapter around request and stream futures) + randomised schedules + TSan/Miri stress; ledger oracle from a commuting-operations reference model; model-free conservation monitor (emission log vs applied log) for abort races",
    "rule": "scenario = random program started on one Core + sequential prefix + 2-4 operations (resolve / drop / event / view) that commute in the model, or an abort race (abort of a command, inside update or through the handle, against a resolution whose task emits a burst: no single expectation, conservation emitted == applied, per-task order, nothing of the aborted command runs after the calls returned); forced lane: for each ordered pair and each hook hit k of the first operation, hold it there while the second runs; random/stress lanes: all at once, repeated; non-trivial = a schedule in which the held thread really was preempted at a hook (forced) or a run with >= 2 threads (random/stress); distinct = hash of (scenario, pair, k) / (scenario, repetition)",
    "lanes": [
        schedlab("forced", 800, 16000, 8, 16),
        schedlab("random", 12000, 600000, 4, 16),
        schedlab("stress", 12000, 600000, 4, 16),
    ],
    "floors": {"quick": {"evaluations": 30000, "distinct_nontrivial": 20000, "forced_schedules": 20000, "concurrent_runs": 30000, "abort_race_runs": 2000},
               "thorough": {"evaluations": 500000, "distinct_nontrivial": 200000}},
    "must_cover": {"preemption_points_exercised": ["cmd.evict_between_reads", "cmd.wake.after_send", "cmd.wake.after_store", "qe.task_taken", "qe.after_poll_pending", "core.before_drain", "sr.resolve", "ss.resolve", "ctx.resolve_once", "ctx.resolve_many"],
                   "apps": ["legacy", "command(attribute)", "command(derive)"]},
    "assumptions": CMD_ASSUME + ["hang verdicts use a per-case wall-clock limit four orders of magnitude above the normal case time"],
}

def caplab(binname, wq=4, wt=16, tq=900, tt=5400, name=None, args=None):
    lane = {"name": name or binname, "pkg": "caplab", "bin": binname,
            "workers": {"quick": wq, "thorough": wt},
            "timeout": {"quick": tq, "thorough": tt}}
    if args:
        lane["args"] = args
    return lane

PROPS["C10"] = {
    "level": "exploration",
    "level_text": "held on N values: for both effect macros the schema traced by the real TypeGen::register_app is closed and covers every type that crosses the bridge; every Rust-built protocol value (all variants, edge values) and every effect batch / view the bridge emitted decoded under the schema with nothing left over and re-encoded to the same bytes; every schema-generated value of every container (all enum variants forced, empty and long sequences, arbitrary bytes and strings, extreme integers, nested options) was accepted by Rust's Deserialize and written back byte-identically; schema-generated events went through Bridge::process_event and came back unchanged in the view.",
    "level_note": "the codec (harness/caplab/src/wire.rs) is written from the bincode-1 fixint format description, not from the bincode crate; floats are generated finite",
    "technique": "independent schema-driven codec as differential oracle, both directions, plus bridge round trips",
    "rule": "per app flavour (derive / attribute macro): Rust-built samples of every crux protocol type; N schema-generated values per container with enum variants forced round-robin; bridge effect batches for one job per capability operation; schema-generated Event::Got values through the bridge; non-trivial = value whose check completed all the way (decode + re-encode equal); distinct = hash of (type, bytes)",
    "lanes": [caplab("wirelab", 4, 16)],
    "floors": {"quick": {"evaluations": 20000, "distinct_nontrivial": 8000, "view_round_trips": 400, "bridge_effect_batches_decoded": 40},
               "thorough": {"evaluations": 1000000, "distinct_nontrivial": 300000}},
    "must_cover": {"containers": ["HttpRequest", "HttpResponse", "HttpResult", "HttpError", "HttpHeader", "KeyValueOperation", "KeyValueResult", "KeyValueResponse", "KeyValueError", "Value", "TimeRequest", "TimeResponse", "TimerId", "Instant", "Duration", "PlatformRequest", "PlatformResponse", "RenderOperation", "Request", "Effect", "Event", "ViewModel"],
                   "effect_variants_emitted": ["Http", "KeyValue", "Platform", "Render", "Time"]},
    "assumptions": ["serde-reflection's tracer (the same one crux's TypeGen uses) defines 'the generated schema'; the foreign-language generators of serde-generate are not executed (no Swift/Java/TS toolchain in the sandbox)"],
}

PROPS["C17"] = {
    "level": "exploration",
    "level_text": "held on N calls: each generated key-value call (empty / unicode / NUL / very long keys and prefixes, empty / binary / up to 1 MiB values, boundary cursors) emitted exactly one operation equal to the call's arguments, and each generated shell answer (absent vs present-empty vs present, pages, cursors, every error variant) reached the app as exactly one, unaltered outcome - through the capability API (callback flavour, async flavour, async future probed once with another waker before it is awaited), the command API, the typed core and the bincode / JSON bridges.",
    "level_note": "identity oracle; response kinds always match the operation (a mismatched kind is a documented developer-error panic)",
    "technique": "identity monitor over generated calls and answers on six shells",
    "rule": "random (operation, arguments, answer) x API x shell; non-trivial = call whose operation and outcome were both compared; distinct = hash of (job, shell, answer)",
    "lanes": [caplab("kvlab", 4, 16)],
    "floors": {"quick": {"evaluations": 6000, "distinct_nontrivial": 4000},
               "thorough": {"evaluations": 1500000, "distinct_nontrivial": 800000}},
    "must_cover": {"operations": ["Get", "Set", "Delete", "Exists", "ListKeys"], "apis": ["Legacy", "Command"], "capability_api_flavours": ["callback", "async", "async-probed-first"],
                   "answers": ["absent", "present-empty", "present", "exists", "keys", "Err::Io", "Err::Timeout", "Err::CursorNotFound", "Err::Other"],
                   "shells": ["Core(derive)", "Core(attribute)", "Bridge bincode(derive)", "Bridge JSON(derive)"]},
    "assumptions": [],
}

PROPS["C18"] = {
    "level": "exploration",
    "level_text": "held on N executions: EVERY sequence of the 7 timer actions (poll, shell fires, app clears, handle dropped, request dropped, clear answered, clear request dropped; late and duplicate answers arise as repeats) up to the stated length, for notify_after and notify_at, followed the per-timer reference automaton (requests sent, clear requests sent, outcomes, nothing after the outcome); random interleavings of 2-5 timers in one command did too; ids from the enumeration and from 4 concurrent threads were pairwise distinct.",
    "level_note": "the automaton (timelab.rs `Expect`) is the statement of the property; single-timer interleavings are enumerated exhaustively up to the length bound, multi-timer ones are sampled",
    "technique": "exhaustive action-sequence enumeration against a per-timer outcome automaton + id uniqueness ledger",
    "rule": "all 7^k sequences for k <= 6 (quick) / 8 (thorough) x {notify_after, notify_at}; random scripts for 2-5 timers; non-trivial = sequence of length >= 2; distinct = hash of (sequence, kind)",
    "lanes": [caplab("timelab", 8, 16)],
    "floors": {"quick": {"evaluations": 250000, "distinct_nontrivial": 250000, "multi_timer_runs": 3000},
               "thorough": {"evaluations": 12000000, "distinct_nontrivial": 5000000}},
    "must_cover": {"end_classes": ["Done/Some(false)/req0clr0", "Done/Some(false)/req1clr1", "Done/Some(true)/req1clr0", "ClearPending/None/req1clr1"]},
    "assumptions": ["response kinds match the request (an InstantArrived answer to NotifyAfter is a documented developer-error panic)"],
}

PROPS["C19"] = {
    "level": "exploration",
    "level_text": "held on N conversions: every conversion between the wire Duration / Instant and std / chrono types either preserved the value exactly (checked in u128 / i128 nanoseconds, the wire value read independently through serde) or rejected it explicitly (Err or panic) - and only values that really are unrepresentable in the target were rejected; includes what Time::notify_after / notify_at put on the wire.",
    "level_note": "exact integer arithmetic oracle; inputs are boundary values of every representation (+-2) plus random values at several magnitudes",
    "technique": "exact-arithmetic monitor over boundary and random values for 13 conversions",
    "rule": "round-robin over 13 conversions, input from the boundary table or random; non-trivial = conversion whose result was compared; distinct = hash of (PRNG state, conversion)",
    "lanes": [caplab("timelab", 4, 16)],
    "floors": {"quick": {"evaluations": 150000, "distinct_nontrivial": 100000, "explicit_rejections": 10000, "exact_conversions": 50000},
               "thorough": {"evaluations": 12000000, "distinct_nontrivial": 390000}},
    "must_cover": {"conversions": ["std::time::Duration->Duration", "chrono::TimeDelta->Duration", "Duration->chrono::TimeDelta", "Instant->SystemTime", "SystemTime->Instant", "Instant->chrono::DateTime", "chrono::DateTime->Instant", "Instant::new", "Duration::from_millis", "Duration::from_secs"]},
    "assumptions": [],
}

PROPS["C14"] = {
    "level": "exploration",
    "level_text": "held on N requests: every generated request description (9 standard + extra methods; URLs with ports, IPv6, IDN, percent-escapes, dot segments, queries, fragments; 0-12 headers with repeats in mixed case and multi-valued headers; empty / binary / up to 1 MiB / unicode / JSON / form / reader bodies incl. unknown length; explicit content type before or after the body; query structs) reached the shell as exactly one request whose method, URL, header multiset, content type and body equal an expected wire request computed independently (url crate, no http-types) - for both APIs, the typed core and the bridges.",
    "level_note": "ASCII header names and values only (http-types rejects others at the builder, a documented restriction); base-url joins are unreachable through the public API (no way to configure the capability's client) and are not exercised",
    "technique": "independently computed expected wire request vs. the emitted HttpRequest",
    "rule": "random HttpJob x API x shell; non-trivial = request compared in full without mismatch; distinct = hash of (job, shell, api)",
    "lanes": [caplab("httplab", 4, 16)],
    "floors": {"quick": {"evaluations": 10000, "distinct_nontrivial": 8000, "requests_compared": 10000},
               "thorough": {"evaluations": 1500000, "distinct_nontrivial": 390000}},
    "must_cover": {"body_kinds": ["none", "bytes", "text", "json", "form", "reader(unknown length)", "reader(sized)"], "apis": ["Legacy", "Command"],
                   "methods": ["GET", "HEAD", "POST", "PUT", "DELETE", "PATCH", "OPTIONS", "TRACE", "CONNECT"]},
    "assumptions": [],
}

PROPS["C15"] = {
    "level": "exploration",
    "level_text": "held on N results except the listed known findings: every generated shell result (status axis: all 65 536 codes in thorough, all of 100-599 plus outliers in quick; header lists with repeats, mixed case, odd content types and charsets; bodies incl. BOMs, invalid sequences, text in the claimed charset; every shell error variant) produced exactly one outcome classified as the property says, with status, header multiset and body unchanged; string / JSON expectations equal an independent conforming decode (or are an error value when that fails); every returned String is valid UTF-8; no panic other than the listed ones.",
    "level_note": "send_async hands over the raw response, so the 4xx/5xx classification is only demanded of send() and the command API; error messages are not compared",
    "technique": "classification table + independent decoders + panic trap over generated shell results",
    "rule": "random (status, headers, body | shell error) x expectation x API x shell, status axis enumerated; non-trivial = outcome compared in full; distinct = hash of the case",
    "lanes": [caplab("httplab", 4, 16)],
    "floors": {"quick": {"evaluations": 15000, "distinct_nontrivial": 9000, "outcomes_compared": 10000, "strings_validated_utf8": 500},
               "thorough": {"evaluations": 2500000, "distinct_nontrivial": 390000}},
    "must_cover": {"expectations": ["Bytes", "Text", "Json"], "apis": ["Command", "Legacy", "Legacy+send_async"]},
    "assumptions": ["encoding_rs is the conforming decoder for non-UTF-8 charsets (the same library crux uses, called independently); UTF-8 without BOM is checked with std"],
}

PROPS["C16"] = {
    "level": "exploration",
    "level_text": "held on N stacks / walks except the listed known finding: for random middleware stacks (pass-through, short-circuiting, request-issuing, run-the-rest-twice; client-level through the crux_verif hook, per-request through the public builder) the recorded enter/exit marks nest exactly as client..., request..., shell and the shell is reached once per run of the rest of the chain; for random redirect graphs (absolute, rooted, relative, dot-segment locations, self loops, chains longer than the limit, missing and invalid Location, shell errors) the sequence of wire requests equals a reference walker written from the statement (probe count for a Location-less redirect left open), the final request carries the original body and method, and an error ends the walk with one error outcome.",
    "level_note": "the harness plays the server; the count of probes for a redirect status without Location is not specified and both readings are accepted",
    "technique": "mark-order monitor + reference redirect walker over random graphs",
    "rule": "random middleware stack or redirect graph x attempt limit x API; non-trivial = stack / walk compared without mismatch; distinct = hash of (job, graph)",
    "lanes": [caplab("httplab", 4, 16)],
    "floors": {"quick": {"evaluations": 5000, "distinct_nontrivial": 3000, "middleware_stacks_compared": 1500, "redirect_walks_compared": 1500},
               "thorough": {"evaluations": 800000, "distinct_nontrivial": 300000}},
    "must_cover": {"apis": ["Legacy", "Command"]},
    "assumptions": [],
}

PROPS["C12"] = {
    "level": "fault_enumeration",
    "level_text": "held on N malformed inputs: at every position of random valid histories (one-shot, stream and notification requests outstanding), malformed events and malformed responses to every outstanding request - random bytes, truncation at every length, extension, bit flips, every 8-byte window set to each of 10 hostile lengths, every 4-byte window as a corrupt variant index; for JSON: unbalanced, 2k-10k deep nesting, wrong types, huge numbers, invalid UTF-8 and escapes - returned normally or with an error value: no panic (trap), no allocation above 64 MiB for inputs of a few KiB (counting global allocator), no hang (per-case watchdog); a rejected event left view bytes and registry unchanged; after every attack round a valid step behaved exactly as on a twin bridge that never saw the malformed input (effects modulo ids, view).",
    "level_note": "the app (harness/cmdlab/src/fuzzapp.rs) is total, so every panic is the bridge's or the serde stack's; ids are always those of outstanding requests (documented precondition); a one-shot request that received a malformed response is retired on both bridges ('affects at most the one request it was addressed to')",
    "technique": "fault injection at every history position + twin-bridge differential + counting allocator + panic trap; boundary-value / damaged responses to the capability crates' own requests with bystander and follow-up health probes",
    "rule": "history of 3-14 valid steps; before each step the full mutation set against one fresh event encoding and against a fresh response encoding for each outstanding request (all mutations for streams, one for a one-shot); non-trivial = malformed input that was rejected with app state verified unchanged; distinct = hash of (bytes, mutation kind, history)",
    "lanes": [{"name": "bridgefuzz", "pkg": "cmdlab", "bin": "bridgefuzz", "workers": {"quick": 4, "thorough": 16}, "timeout": {"quick": 900, "thorough": 5400}},
              caplab("capfuzz", 4, 16)],
    "floors": {"quick": {"evaluations": 200000, "distinct_nontrivial": 80000, "malformed_events_offered": 80000, "malformed_responses_offered": 80000, "valid_steps": 1000, "responses_offered": 15000},
               "thorough": {"evaluations": 20000000, "distinct_nontrivial": 390000}},
    "must_cover": {"mutations": ["random-bytes", "truncated", "extended", "bit-flip", "length-field", "variant-index", "json-deep-nesting", "json-wrong-type", "json-huge-number", "json-unbalanced"],
                   "response_targets": ["one-shot", "stream"], "wires": ["bincode", "json"]},
    "assumptions": ["the bridgefuzz lanes use a total app with its own operation types, so every panic there is the bridge's or the serde stack's; responses that are well-formed but wrong for the capability crates (another kind, another timer id, numbers out of range) are offered by the capfuzz lane, and the panics they cause in crux_kv / crux_time / the http-types fork are listed known findings, each keyed on its panic site and message"],
}
PROPS["C12"]["level_text"] += " Capability side (capfuzz lane): responses to outstanding http / kv / time / platform requests of the capability crates, through both bridges and both APIs - valid encodings with boundary numbers written over a field (0, 1, 1e9 - 1, 1e9, 2^32, 2^63, u64::MAX ...), truncated, extended, bit-flipped, random - must return without panicking; afterwards a bystander request that was outstanding during the attack is answered and its outcome arrives, and a new event still produces its request (a panic under the registry lock would poison it). The panics found this way in the capability crates are listed known findings; any other panic site or message is a violation."

PROPS["C13"] = {
    "level": "exploration",
    "level_text": "bounded restatement (a finite run cannot observe 'unbounded'): for 28 repeated patterns over K cycles (request/response cycles through both APIs, both bridges and the typed core, a one-shot answered with garbage, timers set/fire, set/clear/fire, fire/late-clear, renders, renders acknowledged by the shell, subscribe/one item/consumer ends over bridge and core, sibling tasks with one request dropped and the other resolved before the core runs again, a long-lived command extended from outside, timers started and cleared in one update, request futures that are created and never polled through the command API, the capability API and a capability future inside a command task) the occupancy of the bridge registry (by kind), the core's executor, the command's task slab and the cleared-timer set - read through the crux_verif hooks with nothing outstanding at cycles 1, K/2 and K - did not grow, except for the listed known findings; and the number of live heap allocations (counting global allocator, independent of the hooks) did not grow between K/2 and K in any pattern without a listed finding. Held values of finished / cancelled / aborted-before-first-poll tasks are covered by the drop-counter ledger of the cmdlab checks (C04/C06/C07, signature held-value/not-released).",
    "level_note": "legacy-API tasks whose request is dropped are excluded (the legacy executor has no cancellation; the property's mechanisms are anchored in command/executor.rs); growth is judged between K/2 and K so warm-up effects cannot raise an alarm",
    "technique": "occupancy monitor over long repeated histories (hooked registries / slabs / sets) + live-allocation monitor (counting global allocator) + drop counters; LeakSanitizer lanes on the command-lab workloads",
    "rule": "pattern x K cycles (K = 2000 quick, 200000 thorough); non-trivial = pattern whose five occupancy quantities and live-allocation count stayed flat; distinct = (pattern, K)",
    "lanes": [caplab("occlab", 4, 16)],
    "floors": {"quick": {"evaluations": 15, "distinct_nontrivial": 10, "cycles_run": 30000},
               "thorough": {"evaluations": 15, "distinct_nontrivial": 10, "cycles_run": 3000000}},
    "must_cover": {"patterns": ["kv-cycle(command api)", "kv-cycle(capability api)", "render(command api)", "render-acknowledged(command api)", "timer-set-fire(command api)", "subscribe-one-item-consumer-ends(bridge)", "subscribe-one-item-consumer-ends(core)", "one-shot-answered-with-garbage", "sibling-tasks-drop-one-resolve-other(core)", "long-lived-command-extended-repeatedly(direct)", "request-future-never-polled(capability api)", "request-future-never-polled(command api)", "timer-set-then-clear-in-one-update(capability api, typed)"]},
    "assumptions": [],
}

PROPS["C11"] = {
    "level": "exploration",
    "level_text": "held on N histories: each random history (HTTP requests with 0-6 headers incl. multi-valued ones through both APIs, key-value, time, render, platform, batches; responses in random order) was replayed 8 times in one process and in 4 separate processes (fresh hash seeds and addresses); every serialized effect batch and every view was byte-identical across replays once fresh timer ids are renumbered by first appearance; random command programs replayed on core and bridge hosts gave identical ordered observations; Response equality agreed with content equality (equal content built in different header orders => ==; one header / value / status / body changed => !=), is symmetric and reflexive; TimerHandle / CompletedTimerHandle equality follows the timer identity.",
    "level_note": "wall-clock and thread timing cannot influence a single-threaded replay through the public API (the core never reads a clock); they are covered indirectly by C08's commuting-operation oracle",
    "technique": "replay twins in-process and cross-process with byte comparison + equality-law table",
    "rule": "history seed -> replays; non-trivial = history with >= 6 compared outputs whose replays all agreed, or an equality pair whose verdict matched content equality in both directions; distinct = history seed / hash of the content pair",
    "lanes": [caplab("detlab", 4, 16)],
    "floors": {"quick": {"evaluations": 20000, "distinct_nontrivial": 15000, "histories_replayed": 400, "child_process_replays": 300, "response_equalities_checked": 20000, "program_replays": 4000},
               "thorough": {"evaluations": 2000000, "distinct_nontrivial": 390000}},
    "must_cover": {"equality_cases": ["equal-content", "different-content"]},
    "assumptions": [],
}

PROPS["C20"] = {
    "level": "exploration",
    "level_text": "held on N runs of the real codegen (through the crux_verif entry point) over all 7 bundled descriptions, including the two whose snapshot tests are disabled: the registry (as a JSON value) was identical to the untransformed run under (a) a random non-monotone bijection applied consistently to every item id of every crate description (index / paths keys, id, root, parent, items / variants / fields / impls / implementations / tuple lists, links), (b) fresh deserialisation of every description (new HashMap seeds; the number of distinct index iteration orders and crate loading orders actually seen is reported); every referenced TYPENAME is defined; enum variant indices are 0..n-1 and in the declaration order read independently from the rustdoc description (serde-skipped variants removed); every shipped protocol type's entry equals the schema traced from its real serde implementation.",
    "level_note": "map iteration orders and crate loading orders cannot be chosen, only sampled by re-running; the evidence reports how many distinct ones were observed",
    "technique": "metamorphic re-runs (id renumbering incl. sentinel numbers, fresh hash seeds) + closure / contiguity / traced-schema monitors + description edits whose effect on the registry is predicted independently",
    "rule": "description x transformation (2 of 3 renumbered, all freshly deserialised); non-trivial = transformed run whose registry equals the baseline; distinct = (description, transformation, seed)",
    "lanes": [{"name": "clilab", "pkg": "clilab", "bin": "clilab", "workers": {"quick": 7, "thorough": 16}, "timeout": {"quick": 1200, "thorough": 7200}}],
    "floors": {"quick": {"evaluations": 80, "distinct_nontrivial": 70, "renumbered_runs": 50, "forced_cross_crate_collision_renumberings": 14, "dense_renumberings": 14, "affine_renumberings": 14},
               "thorough": {"evaluations": 3000, "distinct_nontrivial": 3000}},
    "must_cover": {"descriptions": ["bridge_echo", "cat_facts", "counter", "hello_world", "notes", "simple_counter", "tap_to_pay"],
                   "protocol_types": ["HttpRequest", "HttpResult", "HttpError", "KeyValueOperation", "KeyValueResult", "TimeRequest", "TimeResponse", "RenderOperation"]},
    "assumptions": ["the bundled crate descriptions are snapshots of the capability crates taken upstream; agreement with the traced schema is checked for the types as they are in /repo now"],
}

# ---------------------------------------------------------------------------
# sanitizer lanes (same workloads, other builds)
# ---------------------------------------------------------------------------

def lane(name, pkg, binname, toolchain, prop_arg, args_q, args_t, wq, wt, tiers=("quick", "thorough"), tq=1200, tt=7200):
    return {"name": name, "pkg": pkg, "bin": binname, "toolchain": toolchain, "prop_arg": prop_arg, "tiers": tiers,
            "workers": {"quick": wq, "thorough": wt}, "timeout": {"quick": tq, "thorough": tt},
            "args": {"quick": args_q, "thorough": args_t}}

PROPS["C08"]["lanes"] += [
    lane("schedlab-stress-tsan", "schedlab", "schedlab", "tsan", "C08", {"mode": "stress", "scenarios": 3000}, {"mode": "stress", "scenarios": 160000}, 2, 8),
    lane("schedlab-stress-miri", "schedlab", "schedlab", "miri", "C08", {"mode": "stress", "scenarios": 8}, {"mode": "stress", "scenarios": 12 * 16}, 4, 16, tiers=("thorough",)),
    lane("schedlab-random-miri", "schedlab", "schedlab", "miri", "C08", {"mode": "random", "scenarios": 8}, {"mode": "random", "scenarios": 8 * 16}, 4, 16, tiers=("thorough",)),
]
PROPS["C08"]["level_text"] += " Lanes: native forced (single and double preemption), native random, native stress, ThreadSanitizer stress (any report = violation), Miri stress/random with varied scheduler seeds in thorough (data races, UB and weak-memory effects in crossbeam / futures as crux uses them)."
PROPS["C13"]["lanes"] += [
    lane("cmdlab-asan-lsan", "cmdlab", "cmdlab", "asan", "C06", {"budget": 30000}, {"budget": 1600000}, 2, 16),
    lane("cmdlab-core-asan-lsan", "cmdlab", "cmdlab", "asan", "C01", {"budget": 20000}, {"budget": 800000}, 2, 16),
]
PROPS["C13"]["level_text"] += " Lanes: the occupancy patterns; plus the cmdlab command and core workloads under AddressSanitizer + LeakSanitizer, where every case ends by dropping its Command / Core / Bridge with whatever work is outstanding: any leak report at exit is a violation."
PROPS["C12"]["lanes"] += [
    lane("bridgefuzz-asan", "cmdlab", "bridgefuzz", "asan", "C12", {"budget": 60}, {"budget": 3200}, 2, 16),
    lane("bridgefuzz-miri", "cmdlab", "bridgefuzz", "miri", "C12", {"budget": 4}, {"budget": 32}, 4, 16, tiers=("thorough",)),
]
PROPS["C12"]["level_text"] += " Lanes: native (with the counting allocator), AddressSanitizer, and Miri in thorough (undefined behaviour on malformed input in the serde / bincode / erased-serde stack)."
PROPS["C15"]["lanes"] += [
    lane("httplab-miri", "caplab", "httplab", "miri", "C15", {"budget": 40}, {"budget": 12 * 16}, 4, 16, tiers=("thorough",)),
]
PROPS["C15"]["level_text"] += " Thorough adds a Miri lane over the same generator (the zero-copy `from_utf8_unchecked` path in response/decode.rs)."
for _p, _n in (("C04", 30), ("C01", 20), ("C07", 30)):
    PROPS[_p]["lanes"] += [lane("cmdlab-miri", "cmdlab", "cmdlab", "miri", _p, {"budget": 16}, {"budget": _n * 16}, 4, 16, tiers=("thorough",))]

# ---- second / third round additions (floors and descriptions of the added workloads) ----------------
for _p in ("C01", "C03", "C05", "C06"):
    PROPS[_p]["floors"]["quick"]["conservation_cases"] = 2000
    PROPS[_p]["technique"] += "; model-free conservation monitor (request log at the sending point / emission log vs what the host hands over) for aborts made from inside a task"
    PROPS[_p]["rule"] += "; plus conservation cases: a stopper task aborts a command (its own or a sibling's) in the middle of a pass, on every host kind; whatever the abort timing, requests made == requests handed over and events emitted == events delivered, exactly once"
for _p in ("C01", "C03"):
    PROPS[_p]["floors"]["quick"]["long_cases"] = 16
    PROPS[_p]["rule"] += "; plus long cases: one command producing 120-420 outputs in one burst or over a long subscription (45-140 items), through typed cores, legacy, mixed and bridge hosts"
PROPS["C01"]["must_cover"]["hosts"] = ["CoreLegacy", "CoreMixed", "BridgeBincode", "BridgeJson"]
PROPS["C02"]["floors"]["quick"]["wide_cases"] = 4
PROPS["C02"]["must_cover"]["hosts"] += ["CoreMixed"]
PROPS["C02"]["rule"] += "; plus wide cases (1100-4200 requests outstanding at once over the bridges) and the Mixed setup (capability futures awaited inside Command tasks)"
PROPS["C04"]["floors"]["quick"]["steps_with_outputs_left_queued_by_a_lagging_consumer"] = 2000
PROPS["C04"]["must_cover"] = dict(PROPS["C04"].get("must_cover", {}), hosts=["Direct", "DirectLag", "StreamHost", "StreamLagHost", "EagerHost"])
PROPS["C04"]["rule"] += "; hosts include lagging consumers (StreamLag: takes 1-3 outputs and leaves the rest queued while the next action happens; DirectLag: leaves events queued and asks is_done() before draining), compared cumulatively"
PROPS["C06"]["floors"]["quick"]["steps_with_outputs_left_queued_by_a_lagging_consumer"] = 1000
PROPS["C05"]["must_cover"]["hosts"] = sorted(set(PROPS["C05"]["must_cover"]["hosts"]) | {"CoreMixed", "StreamLagHost"})
PROPS["C08"]["floors"]["quick"]["scenarios_answering_one_stream_id_from_two_threads"] = 50
PROPS["C08"]["rule"] += "; bridge scenarios include two threads answering the same stream id at once"
PROPS["C11"]["floors"]["quick"].update({"timer_race_replays": 1500, "timer_histories_replayed": 20})
PROPS["C11"]["rule"] += "; every other in-process replay makes each bridge call from a fresh OS thread; capability-API timer histories (start / clear pending / answer / late clear, several timers) are replayed 24x in one process; command-level timer histories where the shell's answer and the app's clear are both waiting are replayed 48x"
PROPS["C12"]["rule"] += "; the app has work that starts when a request's task ends (then, join) and subscriptions whose consumer ends: after a rejected response the follow-up requests are compared with the twin's, a certainly-invalid event is offered while work is pending, well-formed items for ended subscriptions must be rejected the same way on both bridges"
PROPS["C14"]["must_cover"]["body_kinds"] = sorted(set(PROPS["C14"]["must_cover"]["body_kinds"]) | {"json(typed value)"})
PROPS["C14"]["must_cover"]["methods"] = sorted(set(PROPS["C14"]["must_cover"]["methods"]) | {"GET!", "POST!", "TRACE!", "OPTIONS!", "PATCH!", "PUT!", "DELETE!", "HEAD!", "CONNECT!"})
PROPS["C14"]["rule"] += "; methods marked ! go through the API's named constructor (get, trace, ...); typed JSON bodies are compared byte for byte with what the value's own Serialize writes"
PROPS["C16"]["floors"]["quick"]["redirect_stacks_with_marks_compared"] = 800
PROPS["C16"]["rule"] += "; in redirect cases the marks of the surrounding middleware are compared too (before Redirect: original URL once; after Redirect: final URL once; probes pass through neither), Redirect also at client level"
PROPS["C18"]["floors"]["quick"].update({"legacy_multi_timer_runs": 100, "set_then_clear_in_one_update": 60})
PROPS["C18"]["must_cover"]["timer_constructions"] = ["builder.then_send", "into_future at construction, awaited in the task"]
PROPS["C18"]["rule"] += "; each sequence runs for notify_after / notify_at, two constructions of the timer command (builder chain; into_future at construction time, awaited later) and zero duration / the epoch; start+clear in one update through both APIs; several capability-API timers at once with other timers cleared late in between"
PROPS["C20"]["floors"]["quick"].update({"sibling_swap_renumberings": 14, "load_failures_injected": 10, "own_protocol_types_required": 18})
PROPS["C20"]["must_cover"]["descriptions"] = sorted(set(PROPS["C20"]["must_cover"]["descriptions"]) | {"crux_core", "crux_http", "crux_kv", "crux_platform", "crux_time"})
PROPS["C20"]["floors"]["quick"].update({"sentinel_number_renumberings": 8, "description_edits.field_edits": 15, "description_edits.variant_emptied": 8, "description_edits.visible": 15})
PROPS["C20"]["level_text"] += " Beyond the bundled descriptions as they are: renumberings that hand a struct / enum item a sentinel-looking number (0, 1, u32::MAX); and edits of a bundled description whose effect on the registry is predicted independently - a field's primitive type replaced by another (every supported primitive, isize and usize included; table written down in the harness), a field's type wrapped in Option / Vec / Option<Option<>> / Vec<Option<>> / Option<Vec<>>, a one-field variant turned into V() / V {} - each after a control edit that shows where the field is visible; the edited registry must change exactly there and as predicted, stay closed and keep contiguous variant indices."
PROPS["C20"]["must_cover"]["description_edit_kinds"] = ["T -> Option<T>", "T -> Option<Option<T>>", "T -> Vec<T>"]
PROPS["C20"]["rule"] += "; roots are the 7 bundled apps and the 5 capability crates on their own (whose registries must contain their protocol types); renumberings: affine, dense, forced cross-crate collisions, sibling swaps; fault injection: each dependent crate's description unavailable in turn (the run must fail or stay closed)"

ENGINES = [
    {"name": "cmdlab", "path": "harness/cmdlab", "serves_properties": ["C01", "C02", "C03", "C04", "C05", "C06", "C07", "C09"],
     "kind_free_text": "random program generator + executable reference model of command semantics + hosts (direct, stream-polled, nested, Core, legacy, bincode/JSON bridge) run in lock-step on the real crux code"},
    {"name": "schedlab", "path": "harness/schedlab", "serves_properties": ["C08"],
     "kind_free_text": "thread-schedule controller installed through the crux_verif hook points (record / forced single preemption / random yields) + stress lanes for ThreadSanitizer and Miri; oracle = cmdlab model over commuting operations"},
    {"name": "caplab", "path": "harness/caplab", "serves_properties": ["C10", "C11", "C13", "C14", "C15", "C16", "C17", "C18", "C19"],
     "kind_free_text": "capability lab app (http, kv, time, platform, render through both effect macros and both APIs) with job/outcome protocol; bins: wirelab (schema codec), httplab, kvlab, timelab, occlab, detlab"},
    {"name": "bridgefuzz", "path": "harness/cmdlab/src/bin/bridgefuzz.rs", "serves_properties": ["C12"],
     "kind_free_text": "malformed-input injector with twin bridge, counting global allocator and panic trap over a total app"},
    {"name": "clilab", "path": "harness/clilab", "serves_properties": ["C20"],
     "kind_free_text": "metamorphic driver of crux_cli's codegen::run over the bundled rustdoc descriptions"},
]

NOT_APPLICABLE = []
