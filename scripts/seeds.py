#!/usr/bin/env python3
"""Development aid (not a registered command): bookkeeping for seeded changes.

  seeds.py keep <src_out_dir> <name> <property> "<needs>" "<confirmed>"   copy patch/demo/notes into seeded/<name>/ with meta.json
  seeds.py run [name ...] [--checks C01,C02] [--tier quick]                apply each patch to /repo, run checks, undo, record in seeded/RESULTS.json
"""
import json, os, shutil, subprocess, sys, glob, time
VERIF = os.path.dirname(os.path.dirname(os.path.abspath(__file__)))
SEEDED = os.path.join(VERIF, "seeded")

def keep(src, name, prop, needs, confirmed):
    dst = os.path.join(SEEDED, name)
    os.makedirs(dst, exist_ok=True)
    for f in os.listdir(src):
        if f.endswith((".diff", ".rs", ".md")):
            shutil.copy(os.path.join(src, f), dst)
    meta = {"breaks_property": prop, "needs_to_manifest": needs, "confirmed": confirmed,
            "source": "independent sub-agent given only the property text and a scratch worktree",
            "checks_run": {}}
    mp = os.path.join(dst, "meta.json")
    if os.path.exists(mp):
        old = json.load(open(mp)); meta["checks_run"] = old.get("checks_run", {})
    json.dump(meta, open(mp, "w"), indent=1)
    print("kept", dst)

def git(*a):
    return subprocess.run(["git", "-C", "/repo", *a], capture_output=True, text=True)

def run(names, checks, tier):
    if git("status", "--porcelain", "--untracked-files=no").stdout.strip():
        print("/repo is dirty"); sys.exit(2)
    names = names or sorted(d for d in os.listdir(SEEDED) if os.path.exists(os.path.join(SEEDED, d, "patch.diff")))
    for name in names:
        d = os.path.join(SEEDED, name)
        meta = json.load(open(os.path.join(d, "meta.json")))
        cks = checks or [meta["breaks_property"]]
        r = git("apply", os.path.join(d, "patch.diff"))
        if r.returncode != 0:
            print(name, "PATCH DOES NOT APPLY", r.stderr[:300]); git("reset", "-q", "--hard", "HEAD"); continue
        try:
            for c in cks:
                t0 = time.time()
                p = subprocess.run(["./check", c, "--tier", tier], cwd=VERIF, capture_output=True, text=True)
                sigs = [l.strip() for l in p.stdout.splitlines() if l.startswith("  signature=")]
                meta["checks_run"][f"{c}/{tier}"] = {"exit": p.returncode, "detected": p.returncode == 1,
                                                    "signatures": [s[:200] for s in sigs[:6]], "wall_s": round(time.time() - t0, 1)}
                print(f"{name:28s} {c} {tier}: exit={p.returncode} {'DETECTED' if p.returncode == 1 else 'missed' if p.returncode == 0 else 'inconclusive'} {sigs[0][:110] if sigs else ''}")
        finally:
            git("checkout", "--", ".")
        json.dump(meta, open(os.path.join(d, "meta.json"), "w"), indent=1)

if __name__ == "__main__":
    a = sys.argv[1:]
    if a and a[0] == "keep":
        keep(*a[1:6])
    elif a and a[0] == "run":
        names, checks, tier = [], None, "quick"
        i = 1
        while i < len(a):
            if a[i] == "--checks": checks = a[i + 1].split(","); i += 2
            elif a[i] == "--tier": tier = a[i + 1]; i += 2
            else: names.append(a[i]); i += 1
        run(names, checks, tier)
    else:
        print(__doc__)
