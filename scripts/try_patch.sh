#!/bin/bash
# Development aid (not a registered command): apply a patch to /repo's working tree, run the
# given checks, and undo the patch straight afterwards.
#   scripts/try_patch.sh [-R] <patch.diff> <ID> [<ID> ...]      (-R: apply in reverse)
# Env: TIER (default quick), VERIF_SEED.
rev=""
if [ "$1" = "-R" ]; then rev="-R"; shift; fi
patch="$1"; shift
cd /repo || exit 2
if [ -n "$(git status --porcelain --untracked-files=no)" ]; then echo "/repo is dirty"; exit 2; fi
if ! git apply $rev "$patch" 2>/tmp/try_patch.err; then
  echo "patch does not apply:"; cat /tmp/try_patch.err; git reset -q --hard HEAD; exit 2
fi
git reset -q   # --3way stages the result; keep it in the working tree only
for id in "$@"; do
  out=$(cd /verif && ./check "$id" --tier "${TIER:-quick}" 2>&1)
  rc=$?
  echo "--- $id rc=$rc"
  echo "$out" | grep -E "^(VIOLATION|  signature|KNOWN-FINDING|INCONCLUSIVE|C[0-9]+ \[)" | cut -c1-260 | head -${LINES_MAX:-14}
done
cd /repo && git checkout -- . && git status --porcelain --untracked-files=no
