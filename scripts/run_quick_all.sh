#!/bin/bash
# Development aid: every check, quick tier, one seed; prints one line per check.
cd "$(dirname "$0")/.."
seed="${1:-1}"
for id in C01 C02 C03 C04 C05 C06 C07 C08 C09 C10 C11 C12 C13 C14 C15 C16 C17 C18 C19 C20; do
  t0=$(date +%s)
  out=$(VERIF_SEED=$seed ./check $id --tier quick 2>&1); rc=$?
  echo "== $id rc=$rc $(( $(date +%s) - t0 ))s :: $(echo "$out" | grep -E "^(C[0-9]+ \[|VIOLATION|INCONCLUSIVE|KNOWN-FINDING)" | tr '\n' ' ' | cut -c1-400)"
done
