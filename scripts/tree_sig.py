#!/usr/bin/env python3
"""Content signature of /repo's working tree (HEAD, tracked changes, untracked files), and the
bookkeeping that makes a build lane forget what it built from the crux crates when that signature
changed. cargo decides by modification times; a tree that was changed by copying files with
*older* times (rsync -a, cp -p, a restored archive) would otherwise be served from stale artifacts.

    tree_sig.py mark <target-dir>     record the current signature (after a build from this tree)
    tree_sig.py sync <target-dir>     if the signature differs from the recorded one: remove
                                      <target-dir>/**/.fingerprint/crux_* and record the new one
"""
import hashlib, os, subprocess, sys, shutil

REPO = "/repo"


def signature():
    h = hashlib.sha256()
    def git(*a):
        return subprocess.run(["git", "-C", REPO, *a], capture_output=True).stdout
    h.update(git("rev-parse", "HEAD"))
    h.update(git("diff", "HEAD", "--binary", "--no-ext-diff"))
    for name in sorted(git("ls-files", "--others", "--exclude-standard", "-z").split(b"\0")):
        if not name:
            continue
        h.update(name)
        try:
            with open(os.path.join(REPO.encode(), name), "rb") as f:
                h.update(hashlib.sha256(f.read()).digest())
        except OSError:
            h.update(b"?")
    return h.hexdigest()


def sync(target, purge=True):
    """Returns True if artifacts were forgotten."""
    os.makedirs(target, exist_ok=True)
    mark = os.path.join(target, ".crux_tree_sig")
    sig = signature()
    old = open(mark).read().strip() if os.path.exists(mark) else None
    if old == sig:
        return False
    purged = False
    if purge and old is not None:
        for root, dirs, _files in os.walk(target):
            if os.path.basename(root) == ".fingerprint":
                for d in list(dirs):
                    if d.startswith("crux_"):
                        shutil.rmtree(os.path.join(root, d), ignore_errors=True)
                        purged = True
                dirs[:] = []
    with open(mark, "w") as f:
        f.write(sig + "\n")
    return purged


if __name__ == "__main__":
    cmd, target = sys.argv[1], sys.argv[2]
    if cmd == "mark":
        sync(target, purge=False)
    elif cmd == "sync":
        print("forgot crux artifacts" if sync(target) else "unchanged")
