#!/usr/bin/env python3
"""Regenerates /verif/MANIFEST.json from scripts/props.py (single source of truth)."""
import json, os, subprocess, sys
HERE = os.path.dirname(os.path.abspath(__file__))
sys.path.insert(0, HERE)
from props import PROPS, NOT_APPLICABLE, ENGINES

VERIF = os.path.dirname(HERE)
hooks = subprocess.run(["git", "-C", "/repo", "log", "--format=%H %s"], capture_output=True, text=True).stdout.splitlines()
hook_commits = [l.split()[0] for l in hooks if " verif hooks:" in l]

checks = []
for pid in sorted(PROPS):
    p = PROPS[pid]
    checks.append({
        "property_id": pid,
        "quick_cmd": f"./check {pid} --tier quick",
        "thorough_cmd": f"./check {pid} --tier thorough",
        "evidence_file": f"/verif/evidence/{pid}.json",
        "replay_cmd_template": f"./check {pid} --replay {{path}}",
        "engine": p.get("engine", p["lanes"][0]["name"]),
        "level_claimed": {"category": p["level"], "text": p["level_text"], "design_ref": p.get("design_ref", f"DESIGN.md §4.{pid}")},
        "level_note": p["level_note"],
        "technique": p["technique"],
    })
manifest = {
    "version": 1,
    "setup_cmd": "./setup.sh",
    "hooks": {
        "guard": "cargo feature `crux_verif` (crux_core, crux_time, crux_http, crux_cli), off by default",
        "enable": "the harness crates depend on /repo/crux_* by absolute path with features = [\"crux_verif\"]; nothing else is needed",
        "baseline_off_cmd": "./scripts/baseline_off.sh",
        "source_commits": hook_commits,
        "add_only": True,
    },
    "engines": ENGINES,
    "checks": checks,
    "not_applicable": NOT_APPLICABLE,
    "notes": "Technique family: runtime monitoring and sanitizers. Every check runs the real crux code from /repo's working tree under generated workloads and decides with an oracle over the observed executions; see DESIGN.md. VERIF_SEED / VERIF_TIER are honoured. Exit 2 + INCONCLUSIVE line = neither held nor violated (build failure, watchdog, coverage floor not reached).",
}
json.dump(manifest, open(os.path.join(VERIF, "MANIFEST.json"), "w"), indent=1)
print("MANIFEST.json written:", len(checks), "checks,", len(NOT_APPLICABLE), "not applicable")
