#!/bin/bash
# Runs the repository's pinned test suite with the verification guard OFF
# (default features). Prints the nextest summary line; exit status is nextest's.
export RUSTUP_TOOLCHAIN=stable-x86_64-unknown-linux-gnu
export CARGO_NET_OFFLINE=true
cd /repo || exit 2
if cargo nextest --version >/dev/null 2>&1 && [ -f /w/lib/nextest.toml ]; then
  exec cargo nextest run --workspace --no-fail-fast --tool-config-file pb:/w/lib/nextest.toml \
       --profile pb --test-threads 8 --offline
else
  exec cargo test --workspace --no-fail-fast --offline
fi
