#!/bin/bash
# Development aid: run every thorough check once, in sequence, and print one line each.
cd "$(dirname "$0")/.." || exit 2
for id in ${@:-C01 C02 C03 C04 C05 C06 C07 C08 C09 C10 C11 C12 C13 C14 C15 C16 C17 C18 C19 C20}; do
  t0=$(date +%s)
  out=$(./check "$id" --tier thorough 2>&1); rc=$?
  echo "== $id rc=$rc $(( $(date +%s) - t0 ))s :: $(echo "$out" | tail -1 | cut -c1-220)"
  echo "$out" | grep -E "^(VIOLATION|  signature|INCONCLUSIVE)" | cut -c1-300 | head -8
done
