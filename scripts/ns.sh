#!/bin/bash
# Development aid (never used by a registered check): run a command in a private mount namespace
# in which /repo is a scratch COPY of /repo, so that seeded changes can be applied and checked
# while a long run is using the real /repo.   usage: scripts/ns.sh <command...>
set -e
copy=/tmp/verif-ns/repo
mkdir -p "$copy"
rsync -a --delete --exclude target /repo/ "$copy"/
# builds of the (patched) copy must not share a target dir with builds of the real /repo: cargo
# compares mtimes, and the real files are older than artifacts built from the patched copy
export VERIF_TARGET_DIR=/verif/target-ns
# ... and rsync puts the old mtimes back on files the previous run had patched and restored, so
# cargo would take the artifact built from the *patched* file for fresh: forget what was built
# from the crux crates (they rebuild in a minute)
find "$VERIF_TARGET_DIR" -path '*/.fingerprint/crux_*' -prune -exec rm -rf {} + 2>/dev/null || true
exec unshare -m sh -c 'mount --bind "$0" /repo && shift 0 && exec "$@"' "$copy" "$@"
