//! Shared pieces of the verification harness: PRNG, case hashing, panic trap,
//! per-case hang watchdog, worker arguments and the worker report that the
//! `/verif/check` driver merges into an evidence file.

use std::collections::{BTreeMap, BTreeSet};
use std::sync::atomic::{AtomicU64, Ordering};
use std::sync::{Arc, Mutex};
use std::time::{Duration, Instant};

use serde::Serialize;
use serde_json::{json, Value};

// ---------------------------------------------------------------------------
// PRNG (splitmix64 seeded xoshiro256**), no external dependency
// ---------------------------------------------------------------------------

#[derive(Clone, Debug)]
pub struct Rng {
    s: [u64; 4],
}

fn splitmix(x: &mut u64) -> u64 {
    *x = x.wrapping_add(0x9E37_79B9_7F4A_7C15);
    let mut z = *x;
    z = (z ^ (z >> 30)).wrapping_mul(0xBF58_476D_1CE4_E5B9);
    z = (z ^ (z >> 27)).wrapping_mul(0x94D0_49BB_1331_11EB);
    z ^ (z >> 31)
}

impl Rng {
    pub fn new(seed: u64) -> Self {
        let mut x = seed ^ 0xA076_1D64_78BD_642F;
        let s = [
            splitmix(&mut x),
            splitmix(&mut x),
            splitmix(&mut x),
            splitmix(&mut x),
        ];
        Rng { s }
    }

    /// Independent stream derived from this seed and a label
    pub fn derive(seed: u64, a: u64, b: u64) -> Self {
        let mut x = seed;
        let k1 = splitmix(&mut x) ^ a.wrapping_mul(0x9E37_79B9_7F4A_7C15);
        let mut y = k1;
        let k2 = splitmix(&mut y) ^ b.wrapping_mul(0xC2B2_AE3D_27D4_EB4F);
        Rng::new(k2)
    }

    pub fn state(&self) -> [u64; 4] {
        self.s
    }

    pub fn next_u64(&mut self) -> u64 {
        let result = self.s[1].wrapping_mul(5).rotate_left(7).wrapping_mul(9);
        let t = self.s[1] << 17;
        self.s[2] ^= self.s[0];
        self.s[3] ^= self.s[1];
        self.s[1] ^= self.s[2];
        self.s[0] ^= self.s[3];
        self.s[2] ^= t;
        self.s[3] = self.s[3].rotate_left(45);
        result
    }

    /// uniform in 0..n (n > 0)
    pub fn below(&mut self, n: u64) -> u64 {
        assert!(n > 0);
        // bias is irrelevant at these sizes
        self.next_u64() % n
    }

    pub fn usize_below(&mut self, n: usize) -> usize {
        self.below(n as u64) as usize
    }

    /// inclusive range
    pub fn range(&mut self, lo: u64, hi: u64) -> u64 {
        assert!(hi >= lo);
        if lo == 0 && hi == u64::MAX {
            return self.next_u64();
        }
        lo + self.below(hi - lo + 1)
    }

    pub fn chance(&mut self, num: u64, den: u64) -> bool {
        self.below(den) < num
    }

    pub fn pick<'a, T>(&mut self, xs: &'a [T]) -> &'a T {
        &xs[self.usize_below(xs.len())]
    }

    pub fn shuffle<T>(&mut self, xs: &mut [T]) {
        for i in (1..xs.len()).rev() {
            let j = self.usize_below(i + 1);
            xs.swap(i, j);
        }
    }

    pub fn bytes(&mut self, n: usize) -> Vec<u8> {
        let mut v = Vec::with_capacity(n);
        while v.len() < n {
            let x = self.next_u64().to_le_bytes();
            let take = (n - v.len()).min(8);
            v.extend_from_slice(&x[..take]);
        }
        v
    }

    /// weighted choice, returns index
    pub fn weighted(&mut self, weights: &[u32]) -> usize {
        let total: u64 = weights.iter().map(|w| *w as u64).sum();
        assert!(total > 0);
        let mut x = self.below(total);
        for (i, w) in weights.iter().enumerate() {
            if x < *w as u64 {
                return i;
            }
            x -= *w as u64;
        }
        unreachable!()
    }
}

// ---------------------------------------------------------------------------
// Hashing of cases (FNV-1a 64 over a canonical byte form)
// ---------------------------------------------------------------------------

pub fn fnv64(bytes: &[u8]) -> u64 {
    let mut h: u64 = 0xcbf2_9ce4_8422_2325;
    for b in bytes {
        h ^= *b as u64;
        h = h.wrapping_mul(0x0000_0100_0000_01B3);
    }
    h
}

pub fn hash_json<T: Serialize>(v: &T) -> u64 {
    fnv64(&serde_json::to_vec(v).expect("case serialises"))
}

pub fn hash_mix(a: u64, b: u64) -> u64 {
    let mut x = a ^ b.rotate_left(32).wrapping_mul(0x9E37_79B9_7F4A_7C15);
    splitmix(&mut x)
}

// ---------------------------------------------------------------------------
// Panic trap
// ---------------------------------------------------------------------------

thread_local! {
    static LAST_PANIC: std::cell::RefCell<Option<String>> = const { std::cell::RefCell::new(None) };
    static TRAP_DEPTH: std::cell::Cell<u32> = const { std::cell::Cell::new(0) };
}

/// Install a panic hook that records the message and location in a thread-local
/// while a trap is active on that thread (and stays quiet), and otherwise
/// behaves like the default hook.
pub fn install_panic_hook() {
    let default = std::panic::take_hook();
    std::panic::set_hook(Box::new(move |info| {
        let trapped = TRAP_DEPTH.with(|d| d.get() > 0);
        let msg = if let Some(s) = info.payload().downcast_ref::<&str>() {
            (*s).to_string()
        } else if let Some(s) = info.payload().downcast_ref::<String>() {
            s.clone()
        } else {
            "<non-string panic payload>".to_string()
        };
        let loc = info
            .location()
            .map(|l| format!("{}:{}", l.file(), l.line()))
            .unwrap_or_else(|| "<unknown>".into());
        if trapped {
            LAST_PANIC.with(|p| *p.borrow_mut() = Some(format!("{msg} @ {loc}")));
        } else {
            default(info);
        }
    }));
}

/// Run `f`, turning a panic into `Err("message @ file:line")`.
pub fn trap<T>(f: impl FnOnce() -> T) -> Result<T, String> {
    TRAP_DEPTH.with(|d| d.set(d.get() + 1));
    let r = std::panic::catch_unwind(std::panic::AssertUnwindSafe(f));
    TRAP_DEPTH.with(|d| d.set(d.get() - 1));
    match r {
        Ok(v) => Ok(v),
        Err(_) => Err(LAST_PANIC
            .with(|p| p.borrow_mut().take())
            .unwrap_or_else(|| "<panic without message>".into())),
    }
}

/// Strip the volatile parts of a panic location so that it can be used in a signature:
/// keeps the file name (without directories up to the crate) and drops the line number.
pub fn panic_site(msg_at_loc: &str) -> String {
    let loc = msg_at_loc.rsplit(" @ ").next().unwrap_or("");
    let file = loc.rsplit_once(':').map(|(f, _)| f).unwrap_or(loc);
    // keep the last three path components
    let parts: Vec<&str> = file.split('/').collect();
    let n = parts.len();
    parts[n.saturating_sub(3)..].join("/")
}

// ---------------------------------------------------------------------------
// Worker arguments
// ---------------------------------------------------------------------------

#[derive(Clone, Debug)]
pub struct Args {
    pub prop: String,
    pub tier: String,
    pub seed: u64,
    pub worker: u64,
    pub workers: u64,
    pub out: Option<String>,
    pub replay: Option<String>,
    pub budget: Option<u64>,
    pub extra: BTreeMap<String, String>,
}

impl Args {
    pub fn parse() -> Args {
        let mut a = Args {
            prop: String::new(),
            tier: "quick".into(),
            seed: 1,
            worker: 0,
            workers: 1,
            out: None,
            replay: None,
            budget: None,
            extra: BTreeMap::new(),
        };
        let argv: Vec<String> = std::env::args().skip(1).collect();
        let mut i = 0;
        while i < argv.len() {
            let k = argv[i].clone();
            let v = argv.get(i + 1).cloned().unwrap_or_default();
            match k.as_str() {
                "--prop" => a.prop = v,
                "--tier" => a.tier = v,
                "--seed" => a.seed = v.parse().expect("--seed"),
                "--worker" => a.worker = v.parse().expect("--worker"),
                "--workers" => a.workers = v.parse().expect("--workers"),
                "--out" => a.out = Some(v),
                "--replay" => a.replay = Some(v),
                "--budget" => a.budget = Some(v.parse().expect("--budget")),
                other if other.starts_with("--") => {
                    a.extra.insert(other[2..].to_string(), v);
                }
                other => panic!("unexpected argument {other}"),
            }
            i += 2;
        }
        a
    }

    pub fn thorough(&self) -> bool {
        self.tier == "thorough"
    }

    /// number of cases for this worker given a total for the tier
    pub fn share(&self, quick_total: u64, thorough_total: u64) -> u64 {
        let total = self
            .budget
            .unwrap_or(if self.thorough() { thorough_total } else { quick_total });
        let base = total / self.workers;
        let extra = if self.worker < total % self.workers { 1 } else { 0 };
        base + extra
    }

    /// Share of a secondary workload of a binary: `--<key> N` sets its total; otherwise it is the
    /// default scaled by the same factor `--budget` scales the main workload with.
    pub fn share_scaled(&self, key: &str, quick_total: u64, thorough_total: u64, main_quick: u64, main_thorough: u64) -> u64 {
        let (default, main) = if self.thorough() { (thorough_total, main_thorough) } else { (quick_total, main_quick) };
        let total = match (self.extra.get(key), self.budget) {
            (Some(v), _) => v.parse().expect("numeric extra argument"),
            (None, Some(b)) => ((b as u128 * default as u128) / main.max(1) as u128) as u64,
            (None, None) => default,
        };
        let base = total / self.workers;
        let extra = if self.worker < total % self.workers { 1 } else { 0 };
        base + extra
    }

    pub fn worker_seed(&self) -> u64 {
        let mut x = self.seed ^ (self.worker.wrapping_add(1)).wrapping_mul(0xD6E8_FEB8_6659_FD93);
        splitmix(&mut x)
    }

    pub fn extra_u64(&self, key: &str, default: u64) -> u64 {
        self.extra
            .get(key)
            .map(|v| v.parse().expect("numeric extra argument"))
            .unwrap_or(default)
    }
}

// ---------------------------------------------------------------------------
// Per-case hang watchdog and write-ahead case log
// ---------------------------------------------------------------------------

struct WatchState {
    case_started: Option<Instant>,
    case: String,
    limit: Duration,
}

/// Watches the wall-clock time of a *single case*. The limit is set four or more
/// orders of magnitude above the normal time of a case, so that only a genuine hang
/// (deadlock, livelock) trips it; it then writes the report with a `hang` violation
/// carrying the current case and exits the process. The watchdog around a whole
/// worker (in the driver) is separate and only ever yields "inconclusive".
#[derive(Clone)]
pub struct Watchdog {
    state: Arc<Mutex<WatchState>>,
    beats: Arc<AtomicU64>,
}

impl Watchdog {
    pub fn start(report: Arc<Mutex<Report>>, out: Option<String>, limit: Duration) -> Watchdog {
        let state = Arc::new(Mutex::new(WatchState {
            case_started: None,
            case: String::new(),
            limit,
        }));
        let beats = Arc::new(AtomicU64::new(0));
        let st = state.clone();
        if cfg!(miri) {
            // Miri insists on all threads being joined at exit and runs on virtual time: hangs
            // are left to the driver's wall-clock watchdog there
            return Watchdog { state, beats };
        }
        std::thread::Builder::new()
            .name("verif-watchdog".into())
            .spawn(move || loop {
                std::thread::sleep(Duration::from_millis(500));
                let (expired, case) = {
                    let s = st.lock().unwrap();
                    match s.case_started {
                        Some(t) if t.elapsed() > s.limit => (true, s.case.clone()),
                        _ => (false, String::new()),
                    }
                };
                if expired {
                    // the worker thread is stuck; report from here and leave
                    let replay: Value =
                        serde_json::from_str(&case).unwrap_or_else(|_| Value::String(case.clone()));
                    if let Ok(mut r) = report.try_lock() {
                        r.violation(
                            "hang/case-exceeded-wall-limit",
                            "a single case did not finish within the hang limit (deadlock or livelock)",
                            replay,
                        );
                        if let Some(out) = &out {
                            r.write(out);
                        }
                    } else if let Some(out) = &out {
                        // the report is locked by the stuck thread: write a minimal one
                        let mut r = Report::new("?");
                        r.evaluations = 1;
                        r.violation(
                            "hang/case-exceeded-wall-limit",
                            "a single case did not finish within the hang limit (deadlock or livelock)",
                            replay,
                        );
                        r.write(out);
                    }
                    std::process::exit(3);
                }
            })
            .expect("watchdog thread");
        Watchdog { state, beats }
    }

    /// Mark the start of a case; `case` is its serialised form (the write-ahead record)
    pub fn begin(&self, case: impl FnOnce() -> String) {
        let mut s = self.state.lock().unwrap();
        s.case_started = Some(Instant::now());
        s.case = case();
        self.beats.fetch_add(1, Ordering::Relaxed);
    }

    pub fn end(&self) {
        let mut s = self.state.lock().unwrap();
        s.case_started = None;
    }
}

// ---------------------------------------------------------------------------
// Worker report
// ---------------------------------------------------------------------------

#[derive(Clone, Debug, Serialize)]
pub struct Violation {
    pub signature: String,
    pub what: String,
    pub replay: Value,
    pub count: u64,
}

#[derive(Debug)]
pub struct Report {
    pub prop: String,
    pub evaluations: u64,
    pub nontrivial: BTreeSet<u64>,
    pub counters: BTreeMap<String, u64>,
    pub maxima: BTreeMap<String, u64>,
    pub sets: BTreeMap<String, BTreeSet<String>>,
    pub samples: Vec<Value>,
    pub violations: BTreeMap<String, Violation>,
    pub inconclusive: Vec<String>,
    pub exhaustive: Option<bool>,
    started: Instant,
}

pub const MAX_SAMPLES: usize = 4;
pub const MAX_NONTRIVIAL_HASHES: usize = 400_000;

impl Report {
    pub fn new(prop: &str) -> Report {
        Report {
            prop: prop.to_string(),
            evaluations: 0,
            nontrivial: BTreeSet::new(),
            counters: BTreeMap::new(),
            maxima: BTreeMap::new(),
            sets: BTreeMap::new(),
            samples: Vec::new(),
            violations: BTreeMap::new(),
            inconclusive: Vec::new(),
            exhaustive: None,
            started: Instant::now(),
        }
    }

    pub fn eval(&mut self) {
        self.evaluations += 1;
    }

    /// Record a distinct non-trivial case by hash
    pub fn nontrivial(&mut self, hash: u64) {
        if self.nontrivial.len() < MAX_NONTRIVIAL_HASHES {
            self.nontrivial.insert(hash);
        }
    }

    pub fn count(&mut self, key: &str, n: u64) {
        *self.counters.entry(key.to_string()).or_insert(0) += n;
    }

    pub fn max(&mut self, key: &str, n: u64) {
        let e = self.maxima.entry(key.to_string()).or_insert(0);
        if n > *e {
            *e = n;
        }
    }

    /// Record membership in a small named set (e.g. constructors covered, end classes seen)
    pub fn set(&mut self, key: &str, member: impl Into<String>) {
        let s = self.sets.entry(key.to_string()).or_default();
        if s.len() < 4096 {
            s.insert(member.into());
        }
    }

    pub fn sample(&mut self, v: impl FnOnce() -> Value) {
        if self.samples.len() < MAX_SAMPLES {
            self.samples.push(v());
        }
    }

    pub fn violation(&mut self, signature: &str, what: &str, replay: Value) {
        let e = self
            .violations
            .entry(signature.to_string())
            .or_insert_with(|| Violation {
                signature: signature.to_string(),
                what: what.to_string(),
                replay,
                count: 0,
            });
        e.count += 1;
    }

    pub fn inconclusive(&mut self, why: impl Into<String>) {
        self.inconclusive.push(why.into());
    }

    pub fn to_json(&self) -> Value {
        json!({
            "prop": self.prop,
            "evaluations": self.evaluations,
            "nontrivial": self.nontrivial.iter().map(|h| format!("{h:016x}")).collect::<Vec<_>>(),
            "counters": self.counters,
            "maxima": self.maxima,
            "sets": self.sets,
            "samples": self.samples,
            "violations": self.violations.values().collect::<Vec<_>>(),
            "inconclusive": self.inconclusive,
            "exhaustive": self.exhaustive,
            "wall_s": self.started.elapsed().as_secs_f64(),
        })
    }

    pub fn write(&self, path: &str) {
        let tmp = format!("{path}.part");
        std::fs::write(&tmp, serde_json::to_vec(&self.to_json()).unwrap()).expect("write report");
        std::fs::rename(&tmp, path).expect("rename report");
    }

    pub fn finish(&self, args: &Args) {
        match &args.out {
            Some(p) => self.write(p),
            None => println!("{}", serde_json::to_string_pretty(&self.to_json()).unwrap()),
        }
    }
}
