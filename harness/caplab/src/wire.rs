//! Schema-driven codec for the bridge's wire format, written from the format description
//! (bincode 1, fixed-width little-endian integers), not from the bincode crate:
//!   bool = 1 byte (0/1) · integers = fixed width LE · f32/f64 = IEEE LE · char = UTF-8 scalar ·
//!   str / bytes = u64 length + payload · Option = u8 tag (0/1) · Seq / Map = u64 length ·
//!   tuples and structs = concatenation · enum = u32 LE variant index + payload.

use std::collections::BTreeMap;

use serde_reflection::{ContainerFormat, Format, Named, Registry, VariantFormat};
use vcommon::Rng;

#[derive(Clone, Debug, PartialEq)]
pub enum V {
    Unit,
    Bool(bool),
    /// unsigned integer of the given width in bytes
    U(u128, u8),
    I(i128, u8),
    F32(u32),
    F64(u64),
    Char(char),
    Str(String),
    Bytes(Vec<u8>),
    Opt(Option<Box<V>>),
    Seq(Vec<V>),
    Map(Vec<(V, V)>),
    Tuple(Vec<V>),
    Variant(u32, Box<V>),
}

#[derive(Debug, Clone, PartialEq)]
pub struct WireError(pub String);

fn err<T>(s: impl Into<String>) -> Result<T, WireError> {
    Err(WireError(s.into()))
}

pub struct Reader<'a> {
    pub bytes: &'a [u8],
    pub pos: usize,
}

impl<'a> Reader<'a> {
    fn take(&mut self, n: usize) -> Result<&'a [u8], WireError> {
        if self.bytes.len() - self.pos < n {
            return err(format!(
                "need {n} bytes at offset {}, only {} left",
                self.pos,
                self.bytes.len() - self.pos
            ));
        }
        let s = &self.bytes[self.pos..self.pos + n];
        self.pos += n;
        Ok(s)
    }
    fn uint(&mut self, width: usize) -> Result<u128, WireError> {
        let s = self.take(width)?;
        let mut b = [0u8; 16];
        b[..width].copy_from_slice(s);
        Ok(u128::from_le_bytes(b))
    }
    fn len(&mut self) -> Result<usize, WireError> {
        let n = self.uint(8)?;
        if n > (self.bytes.len() - self.pos) as u128 * 8 + 64 {
            // every element takes at least... possibly zero bytes (units), so only reject the absurd
            if n > 1 << 32 {
                return err(format!("length {n} is absurd"));
            }
        }
        Ok(n as usize)
    }
}

pub fn decode_named(reg: &Registry, name: &str, r: &mut Reader) -> Result<V, WireError> {
    let Some(c) = reg.get(name) else {
        return err(format!("type {name} is referenced but not defined in the schema"));
    };
    match c {
        ContainerFormat::UnitStruct => Ok(V::Unit),
        ContainerFormat::NewTypeStruct(f) => decode(reg, f, r),
        ContainerFormat::TupleStruct(fs) => Ok(V::Tuple(
            fs.iter().map(|f| decode(reg, f, r)).collect::<Result<_, _>>()?,
        )),
        ContainerFormat::Struct(fs) => Ok(V::Tuple(
            fs.iter()
                .map(|f| decode(reg, &f.value, r))
                .collect::<Result<_, _>>()?,
        )),
        ContainerFormat::Enum(vs) => {
            let idx = r.uint(4)? as u32;
            let Some(v) = vs.get(&idx) else {
                return err(format!("enum {name} has no variant with index {idx}"));
            };
            let payload = match &v.value {
                VariantFormat::Unit => V::Unit,
                VariantFormat::NewType(f) => decode(reg, f, r)?,
                VariantFormat::Tuple(fs) => V::Tuple(
                    fs.iter().map(|f| decode(reg, f, r)).collect::<Result<_, _>>()?,
                ),
                VariantFormat::Struct(fs) => V::Tuple(
                    fs.iter()
                        .map(|f| decode(reg, &f.value, r))
                        .collect::<Result<_, _>>()?,
                ),
                VariantFormat::Variable(_) => return err(format!("enum {name} variant {idx} has an unresolved format")),
            };
            Ok(V::Variant(idx, Box::new(payload)))
        }
    }
}

pub fn decode(reg: &Registry, f: &Format, r: &mut Reader) -> Result<V, WireError> {
    Ok(match f {
        Format::Variable(_) => return err("unresolved format variable in the schema"),
        Format::TypeName(n) => decode_named(reg, n, r)?,
        Format::Unit => V::Unit,
        Format::Bool => match r.take(1)?[0] {
            0 => V::Bool(false),
            1 => V::Bool(true),
            b => return err(format!("invalid bool byte {b}")),
        },
        Format::I8 => V::I(r.uint(1)? as u8 as i8 as i128, 1),
        Format::I16 => V::I(r.uint(2)? as u16 as i16 as i128, 2),
        Format::I32 => V::I(r.uint(4)? as u32 as i32 as i128, 4),
        Format::I64 => V::I(r.uint(8)? as u64 as i64 as i128, 8),
        Format::I128 => V::I(r.uint(16)? as i128, 16),
        Format::U8 => V::U(r.uint(1)?, 1),
        Format::U16 => V::U(r.uint(2)?, 2),
        Format::U32 => V::U(r.uint(4)?, 4),
        Format::U64 => V::U(r.uint(8)?, 8),
        Format::U128 => V::U(r.uint(16)?, 16),
        Format::F32 => V::F32(r.uint(4)? as u32),
        Format::F64 => V::F64(r.uint(8)? as u64),
        Format::Char => {
            let first = r.take(1)?[0];
            let n = match first {
                0x00..=0x7f => 1,
                0xc0..=0xdf => 2,
                0xe0..=0xef => 3,
                0xf0..=0xf7 => 4,
                _ => return err("invalid UTF-8 lead byte in char"),
            };
            let mut buf = vec![first];
            buf.extend_from_slice(r.take(n - 1)?);
            let s = std::str::from_utf8(&buf).map_err(|_| WireError("invalid UTF-8 in char".into()))?;
            V::Char(s.chars().next().unwrap())
        }
        Format::Str => {
            let n = r.len()?;
            let b = r.take(n)?;
            V::Str(
                std::str::from_utf8(b)
                    .map_err(|_| WireError("invalid UTF-8 in string".into()))?
                    .to_string(),
            )
        }
        Format::Bytes => {
            let n = r.len()?;
            V::Bytes(r.take(n)?.to_vec())
        }
        Format::Option(inner) => match r.take(1)?[0] {
            0 => V::Opt(None),
            1 => V::Opt(Some(Box::new(decode(reg, inner, r)?))),
            b => return err(format!("invalid option tag {b}")),
        },
        Format::Seq(inner) => {
            let n = r.len()?;
            let mut v = Vec::new();
            for _ in 0..n {
                v.push(decode(reg, inner, r)?);
            }
            V::Seq(v)
        }
        Format::Map { key, value } => {
            let n = r.len()?;
            let mut v = Vec::new();
            for _ in 0..n {
                let k = decode(reg, key, r)?;
                let x = decode(reg, value, r)?;
                v.push((k, x));
            }
            V::Map(v)
        }
        Format::Tuple(fs) => V::Tuple(fs.iter().map(|f| decode(reg, f, r)).collect::<Result<_, _>>()?),
        Format::TupleArray { content, size } => V::Tuple(
            (0..*size)
                .map(|_| decode(reg, content, r))
                .collect::<Result<_, _>>()?,
        ),
    })
}

/// The encoding only depends on the value tree (the schema was needed to build it)
pub fn encode(v: &V, out: &mut Vec<u8>) {
    match v {
        V::Unit => {}
        V::Bool(b) => out.push(*b as u8),
        V::U(x, w) => out.extend_from_slice(&x.to_le_bytes()[..*w as usize]),
        V::I(x, w) => out.extend_from_slice(&x.to_le_bytes()[..*w as usize]),
        V::F32(b) => out.extend_from_slice(&b.to_le_bytes()),
        V::F64(b) => out.extend_from_slice(&b.to_le_bytes()),
        V::Char(c) => {
            let mut buf = [0u8; 4];
            out.extend_from_slice(c.encode_utf8(&mut buf).as_bytes());
        }
        V::Str(s) => {
            out.extend_from_slice(&(s.len() as u64).to_le_bytes());
            out.extend_from_slice(s.as_bytes());
        }
        V::Bytes(b) => {
            out.extend_from_slice(&(b.len() as u64).to_le_bytes());
            out.extend_from_slice(b);
        }
        V::Opt(None) => out.push(0),
        V::Opt(Some(x)) => {
            out.push(1);
            encode(x, out);
        }
        V::Seq(xs) => {
            out.extend_from_slice(&(xs.len() as u64).to_le_bytes());
            xs.iter().for_each(|x| encode(x, out));
        }
        V::Map(xs) => {
            out.extend_from_slice(&(xs.len() as u64).to_le_bytes());
            for (k, x) in xs {
                encode(k, out);
                encode(x, out);
            }
        }
        V::Tuple(xs) => xs.iter().for_each(|x| encode(x, out)),
        V::Variant(i, x) => {
            out.extend_from_slice(&i.to_le_bytes());
            encode(x, out);
        }
    }
}

pub fn decode_all_named(reg: &Registry, name: &str, bytes: &[u8]) -> Result<V, WireError> {
    let mut r = Reader { bytes, pos: 0 };
    let v = decode_named(reg, name, &mut r)?;
    if r.pos != bytes.len() {
        return err(format!("{} byte(s) left over after a {name}", bytes.len() - r.pos));
    }
    Ok(v)
}

pub fn decode_all(reg: &Registry, f: &Format, bytes: &[u8]) -> Result<V, WireError> {
    let mut r = Reader { bytes, pos: 0 };
    let v = decode(reg, f, &mut r)?;
    if r.pos != bytes.len() {
        return err(format!("{} byte(s) left over", bytes.len() - r.pos));
    }
    Ok(v)
}

// ---------------------------------------------------------------------------
// Generation of schema-valid values
// ---------------------------------------------------------------------------

pub struct ValueGen<'a> {
    pub reg: &'a Registry,
    pub rng: &'a mut Rng,
    /// per enum: next variant to force, so that every variant of every enum is produced
    pub next_variant: BTreeMap<String, usize>,
    pub variants_seen: BTreeMap<String, std::collections::BTreeSet<u32>>,
    pub max_depth: usize,
}

impl<'a> ValueGen<'a> {
    pub fn new(reg: &'a Registry, rng: &'a mut Rng) -> Self {
        ValueGen {
            reg,
            rng,
            next_variant: BTreeMap::new(),
            variants_seen: BTreeMap::new(),
            max_depth: 6,
        }
    }

    fn uint(&mut self, width: u8) -> u128 {
        let max: u128 = if width == 16 { u128::MAX } else { (1u128 << (8 * width as u32)) - 1 };
        match self.rng.below(8) {
            0 => 0,
            1 => 1,
            2 => max,
            3 => max - 1,
            4 => max / 2,
            5 => max / 2 + 1,
            _ => {
                let hi = self.rng.next_u64() as u128;
                let lo = self.rng.next_u64() as u128;
                ((hi << 64) | lo) & max
            }
        }
    }

    fn string(&mut self) -> String {
        match self.rng.below(8) {
            0 => String::new(),
            1 => "a".into(),
            2 => "héllo wörld \u{1F980} \u{0}\u{7f}".into(),
            3 => "\u{feff}bom".into(),
            4 => "x".repeat(self.rng.range(100, 3000) as usize),
            _ => {
                let n = self.rng.below(12) as usize;
                (0..n)
                    .map(|_| {
                        let c = match self.rng.below(4) {
                            0 => self.rng.range(0x20, 0x7e) as u32,
                            1 => self.rng.range(0xa0, 0x7ff) as u32,
                            2 => self.rng.range(0x800, 0xd7ff) as u32,
                            _ => self.rng.range(0x10000, 0x10ffff) as u32,
                        };
                        char::from_u32(c).unwrap_or('?')
                    })
                    .collect()
            }
        }
    }

    fn len(&mut self) -> usize {
        match self.rng.below(8) {
            0 | 1 => 0,
            2 => 1,
            3 => self.rng.range(50, 400) as usize,
            _ => self.rng.range(2, 6) as usize,
        }
    }

    pub fn named(&mut self, name: &str, depth: usize) -> V {
        let c = self.reg.get(name).unwrap_or_else(|| panic!("{name} not in schema")).clone();
        match &c {
            ContainerFormat::UnitStruct => V::Unit,
            ContainerFormat::NewTypeStruct(f) => self.value(f, depth + 1),
            ContainerFormat::TupleStruct(fs) => V::Tuple(fs.iter().map(|f| self.value(f, depth + 1)).collect()),
            ContainerFormat::Struct(fs) => V::Tuple(fs.iter().map(|f| self.value(&f.value, depth + 1)).collect()),
            ContainerFormat::Enum(vs) => {
                let keys: Vec<u32> = vs.keys().copied().collect();
                // force variants round-robin; deep in the tree prefer the first unit-like variant
                let idx = if depth > self.max_depth {
                    *keys
                        .iter()
                        .find(|k| matches!(vs[k].value, VariantFormat::Unit))
                        .unwrap_or(&keys[0])
                } else {
                    let n = self.next_variant.entry(name.to_string()).or_insert(0);
                    let k = keys[*n % keys.len()];
                    *n += 1;
                    k
                };
                self.variants_seen.entry(name.to_string()).or_default().insert(idx);
                let v: &Named<VariantFormat> = &vs[&idx];
                let payload = match &v.value {
                    VariantFormat::Unit => V::Unit,
                    VariantFormat::NewType(f) => self.value(f, depth + 1),
                    VariantFormat::Tuple(fs) => V::Tuple(fs.iter().map(|f| self.value(f, depth + 1)).collect()),
                    VariantFormat::Struct(fs) => {
                        V::Tuple(fs.iter().map(|f| self.value(&f.value, depth + 1)).collect())
                    }
                    VariantFormat::Variable(_) => panic!("unresolved variant"),
                };
                V::Variant(idx, Box::new(payload))
            }
        }
    }

    pub fn value(&mut self, f: &Format, depth: usize) -> V {
        let deep = depth > self.max_depth;
        match f {
            Format::Variable(_) => panic!("unresolved format variable"),
            Format::TypeName(n) => self.named(n, depth),
            Format::Unit => V::Unit,
            Format::Bool => V::Bool(self.rng.chance(1, 2)),
            Format::I8 => V::I(self.uint(1) as u8 as i8 as i128, 1),
            Format::I16 => V::I(self.uint(2) as u16 as i16 as i128, 2),
            Format::I32 => V::I(self.uint(4) as u32 as i32 as i128, 4),
            Format::I64 => V::I(self.uint(8) as u64 as i64 as i128, 8),
            Format::I128 => V::I(self.uint(16) as i128, 16),
            Format::U8 => V::U(self.uint(1), 1),
            Format::U16 => V::U(self.uint(2), 2),
            Format::U32 => V::U(self.uint(4), 4),
            Format::U64 => V::U(self.uint(8), 8),
            Format::U128 => V::U(self.uint(16), 16),
            // floats: finite values only (NaN payloads are not preserved by every shell language)
            Format::F32 => V::F32((self.rng.range(0, 2_000_000) as f32 / 7.0 - 1000.0).to_bits()),
            Format::F64 => V::F64((self.rng.range(0, 2_000_000_000) as f64 / 7.0 - 1.0e6).to_bits()),
            Format::Char => V::Char(self.string().chars().next().unwrap_or('z')),
            Format::Str => V::Str(self.string()),
            Format::Bytes => {
                let n = self.len();
                V::Bytes(self.rng.bytes(n))
            }
            Format::Option(inner) => {
                if deep || self.rng.chance(1, 3) {
                    V::Opt(None)
                } else {
                    V::Opt(Some(Box::new(self.value(inner, depth + 1))))
                }
            }
            Format::Seq(inner) => {
                let n = if deep { 0 } else { self.len().min(if depth > 2 { 4 } else { 400 }) };
                V::Seq((0..n).map(|_| self.value(inner, depth + 1)).collect())
            }
            Format::Map { key, value } => {
                let n = if deep { 0 } else { self.len().min(6) };
                // keys distinct and sorted: what a Rust BTreeMap writes
                let mut entries: Vec<(V, V)> = vec![];
                for i in 0..n {
                    let k = match &**key {
                        Format::Str => V::Str(format!("k{i:03}{}", self.string().chars().take(3).collect::<String>())),
                        other => self.value(other, depth + 1),
                    };
                    let v = self.value(value, depth + 1);
                    entries.push((k, v));
                }
                V::Map(entries)
            }
            Format::Tuple(fs) => V::Tuple(fs.iter().map(|f| self.value(f, depth + 1)).collect()),
            Format::TupleArray { content, size } => {
                V::Tuple((0..*size).map(|_| self.value(content, depth + 1)).collect())
            }
        }
    }
}

/// Every type name a format refers to
pub fn referenced(f: &Format, out: &mut Vec<String>) {
    match f {
        Format::TypeName(n) => out.push(n.clone()),
        Format::Option(i) | Format::Seq(i) => referenced(i, out),
        Format::Map { key, value } => {
            referenced(key, out);
            referenced(value, out)
        }
        Format::Tuple(fs) => fs.iter().for_each(|f| referenced(f, out)),
        Format::TupleArray { content, .. } => referenced(content, out),
        _ => {}
    }
}

pub fn container_refs(c: &ContainerFormat) -> Vec<String> {
    let mut out = vec![];
    match c {
        ContainerFormat::UnitStruct => {}
        ContainerFormat::NewTypeStruct(f) => referenced(f, &mut out),
        ContainerFormat::TupleStruct(fs) => fs.iter().for_each(|f| referenced(f, &mut out)),
        ContainerFormat::Struct(fs) => fs.iter().for_each(|f| referenced(&f.value, &mut out)),
        ContainerFormat::Enum(vs) => {
            for v in vs.values() {
                match &v.value {
                    VariantFormat::Unit | VariantFormat::Variable(_) => {}
                    VariantFormat::NewType(f) => referenced(f, &mut out),
                    VariantFormat::Tuple(fs) => fs.iter().for_each(|f| referenced(f, &mut out)),
                    VariantFormat::Struct(fs) => fs.iter().for_each(|f| referenced(&f.value, &mut out)),
                }
            }
        }
    }
    out
}
