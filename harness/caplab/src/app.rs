//! The capability lab app: the driver tells it which capability call to make (`Event::Do`),
//! the call's outcome comes back as `Event::Got` and is logged in the model; the view is the
//! log. Declared twice: derive macro over legacy capabilities (both APIs usable) and the
//! attribute macro (command API only).

use std::sync::Mutex;

use crux_core::render::{render, Render};
use crux_core::Command;
use crux_http::http::headers::HeaderValue;
use crux_http::http::{Body, Method, Mime, Url};
use crux_http::protocol::HttpRequest;
use crux_http::{HttpError, Response};
use crux_kv::error::KeyValueError;
use crux_kv::KeyValueOperation;
use crux_platform::PlatformRequest;
use crux_time::{TimeRequest, TimeResponse, TimerId};
use serde::{Deserialize, Serialize};

use crate::mw;

#[derive(Serialize, Deserialize, Clone, Copy, Debug, PartialEq, Eq)]
pub enum Api {
    Legacy,
    Command,
}

// ---------------------------------------------------------------------------
// Jobs
// ---------------------------------------------------------------------------

#[derive(Serialize, Deserialize, Clone, Debug, PartialEq, Eq)]
pub enum KvJob {
    Get { key: String },
    Set { key: String, value: ByteBuf },
    Delete { key: String },
    Exists { key: String },
    ListKeys { prefix: String, cursor: u64 },
}

#[derive(Serialize, Deserialize, Clone, Debug, PartialEq, Eq, Default)]
pub struct ByteBuf(#[serde(with = "serde_bytes")] pub Vec<u8>);

#[derive(Serialize, Deserialize, Clone, Debug, PartialEq, Eq)]
pub enum BodyJob {
    NoBody,
    Bytes(ByteBuf),
    Text(String),
    /// JSON text of the value passed to `body_json`
    Json(String),
    Form(Vec<Pair>),
    /// `Body::from_reader(.., None)`: length unknown
    Reader(ByteBuf),
    /// `Body::from_reader(.., Some(len))`
    SizedReader(ByteBuf),
    /// `body_json(&TypedBody { .. })`: a typed value whose fields are not in alphabetical order
    /// and which has an `f32` (bits given, to keep `Eq`)
    Typed { zeta: u32, alpha: String, mid_bits: u32, beta: bool },
}

/// what an app would pass to `body_json`: declaration order is not alphabetical
#[derive(Serialize, Deserialize, Clone, Debug, PartialEq)]
pub struct TypedBody {
    pub zeta: u32,
    pub alpha: String,
    pub mid: f32,
    pub beta: bool,
}

impl BodyJob {
    pub fn typed(&self) -> Option<TypedBody> {
        match self {
            BodyJob::Typed { zeta, alpha, mid_bits, beta } => {
                let mid = f32::from_bits(*mid_bits);
                Some(TypedBody {
                    zeta: *zeta,
                    alpha: alpha.clone(),
                    mid: if mid.is_finite() { mid } else { 21.1 },
                    beta: *beta,
                })
            }
            _ => None,
        }
    }
}

#[derive(Serialize, Deserialize, Clone, Debug, PartialEq, Eq)]
pub struct Pair {
    pub k: String,
    pub v: String,
}

#[derive(Serialize, Deserialize, Clone, Debug, PartialEq, Eq)]
pub struct HeaderJob {
    pub name: String,
    pub values: Vec<String>,
}

#[derive(Serialize, Deserialize, Clone, Copy, Debug, PartialEq, Eq)]
pub enum ExpectJob {
    Bytes,
    Text,
    Json,
}

#[derive(Serialize, Deserialize, Clone, Debug, PartialEq, Eq)]
pub enum MwJob {
    /// pass-through, records enter/exit marks
    Mark(u32),
    /// answers itself with this status, never calls the rest of the chain
    ShortCircuit(u32, u16),
    /// sends an extra GET to this URL through the client it is given, then continues
    Issue(u32, String),
    /// calls the rest of the chain twice (the shell must be reached once per call)
    Twice(u32),
    /// the redirect middleware with this attempt limit
    Redirect(u8),
}

#[derive(Serialize, Deserialize, Clone, Debug, PartialEq, Eq)]
pub struct HttpJob {
    pub id: u32,
    pub method: String,
    pub url: String,
    pub headers: Vec<HeaderJob>,
    pub content_type: Option<String>,
    pub content_type_after_body: bool,
    pub body: BodyJob,
    pub query: Option<Vec<Pair>>,
    pub expect: ExpectJob,
    pub client_mw: Vec<MwJob>,
    pub request_mw: Vec<MwJob>,
    /// legacy API: use `send_async` and read the body through `ResponseAsync`
    pub send_async: bool,
}

#[derive(Serialize, Deserialize, Clone, Debug, PartialEq, Eq)]
pub enum TimeJob {
    Now,
    NotifyAfterNanos(u64),
    NotifyAtSecs(u64, u32),
    /// legacy API only: clear a timer id
    Clear(u64),
    /// start a timer and clear it in the same update (before it was ever requested)
    SetThenClearNanos(u64),
}

#[derive(Serialize, Deserialize, Clone, Debug, PartialEq)]
pub enum Job {
    Kv(Api, KvJob),
    Http(Api, HttpJob),
    Time(Api, TimeJob),
    Platform,
    Render(Api),
    Zoo(Box<Zoo>),
    /// several jobs from one update
    Batch(Vec<Job>),
}

/// A struct with one field of most kinds serde knows, for the wire-format checks
#[derive(Serialize, Deserialize, Clone, Debug, PartialEq)]
pub struct Zoo {
    pub b: bool,
    pub u8_: u8,
    pub u16_: u16,
    pub u32_: u32,
    pub u64_: u64,
    pub i8_: i8,
    pub i16_: i16,
    pub i32_: i32,
    pub i64_: i64,
    pub f32_: f32,
    pub f64_: f64,
    pub c: char,
    pub s: String,
    pub bytes: ByteBuf,
    pub opt: Option<u32>,
    pub opt_opt: Option<Option<String>>,
    pub seq: Vec<u16>,
    pub seq_seq: Vec<Vec<bool>>,
    pub tuple: (u8, String, i64),
    pub unit: (),
    pub nested: ZooEnum,
    pub list: Vec<ZooEnum>,
    pub map: std::collections::BTreeMap<String, u32>,
    pub newtype: ZooNew,
    pub tstruct: ZooTuple,
    /// types whose serde implementation depends on `is_human_readable` (text in JSON-like
    /// formats, compact in binary ones): the schema must describe what the bridge's format writes
    pub ip: std::net::Ipv4Addr,
    pub stamp: Stamp,
}

/// written by hand the way uuid / time / ip types are: a string for human-readable formats, a
/// number otherwise
#[derive(Clone, Debug, PartialEq)]
pub struct Stamp(pub u64);

impl Serialize for Stamp {
    fn serialize<S: serde::Serializer>(&self, s: S) -> Result<S::Ok, S::Error> {
        if s.is_human_readable() {
            s.serialize_str(&format!("t{}", self.0))
        } else {
            s.serialize_u64(self.0)
        }
    }
}

impl<'de> Deserialize<'de> for Stamp {
    fn deserialize<D: serde::Deserializer<'de>>(d: D) -> Result<Self, D::Error> {
        if d.is_human_readable() {
            let s = String::deserialize(d)?;
            s.strip_prefix('t')
                .and_then(|n| n.parse().ok())
                .map(Stamp)
                .ok_or_else(|| serde::de::Error::custom("not a stamp"))
        } else {
            u64::deserialize(d).map(Stamp)
        }
    }
}

#[derive(Serialize, Deserialize, Clone, Debug, PartialEq)]
pub struct ZooNew(pub i32);

#[derive(Serialize, Deserialize, Clone, Debug, PartialEq)]
pub struct ZooTuple(pub u8, pub Option<String>);

#[derive(Serialize, Deserialize, Clone, Debug, PartialEq)]
pub enum ZooEnum {
    Unit,
    New(u64),
    Tuple(u8, String),
    Struct { a: Option<Box<ZooEnum>>, b: Vec<u8> },
}

// ---------------------------------------------------------------------------
// Outcomes
// ---------------------------------------------------------------------------

#[derive(Serialize, Deserialize, Clone, Debug, PartialEq, Eq)]
pub enum KvErr {
    Io(String),
    Timeout,
    CursorNotFound,
    Other(String),
}

impl From<KeyValueError> for KvErr {
    fn from(e: KeyValueError) -> Self {
        match e {
            KeyValueError::Io { message } => KvErr::Io(message),
            KeyValueError::Timeout => KvErr::Timeout,
            KeyValueError::CursorNotFound => KvErr::CursorNotFound,
            KeyValueError::Other { message } => KvErr::Other(message),
        }
    }
}

#[derive(Serialize, Deserialize, Clone, Debug, PartialEq, Eq)]
pub enum KvOut {
    /// Get / Set / Delete: the (previous) value, absent or present
    Data(Option<ByteBuf>),
    Exists(bool),
    Keys(Vec<String>, u64),
    Err(KvErr),
}

#[derive(Serialize, Deserialize, Clone, Debug, PartialEq, Eq)]
pub enum BodyOut {
    Bytes(ByteBuf),
    Text(String),
    /// JSON text of the decoded value (serde_json::Value re-serialised)
    Json(String),
    Missing,
}

#[derive(Serialize, Deserialize, Clone, Debug, PartialEq, Eq)]
pub enum HttpErrOut {
    Url(String),
    Io(String),
    Timeout,
    Http {
        code: u16,
        message: String,
        body: Option<ByteBuf>,
    },
    Json(String),
}

impl From<HttpError> for HttpErrOut {
    fn from(e: HttpError) -> Self {
        match e {
            HttpError::Url(s) => HttpErrOut::Url(s),
            HttpError::Io(s) => HttpErrOut::Io(s),
            HttpError::Timeout => HttpErrOut::Timeout,
            HttpError::Http {
                code,
                message,
                body,
            } => HttpErrOut::Http {
                code: code as u16,
                message,
                body: body.map(ByteBuf),
            },
            HttpError::Json(s) => HttpErrOut::Json(s),
        }
    }
}

#[derive(Serialize, Deserialize, Clone, Debug, PartialEq, Eq)]
pub enum HttpOut {
    Ok {
        status: u16,
        /// (lower-case name, value) for every value, sorted
        headers: Vec<Pair>,
        body: BodyOut,
    },
    Err(HttpErrOut),
}

#[derive(Serialize, Deserialize, Clone, Debug, PartialEq, Eq)]
pub enum TimeOut {
    Now(u64, u32),
    Completed(u64),
    Cleared(u64),
    Legacy(String),
}

#[derive(Serialize, Deserialize, Clone, Debug, PartialEq)]
pub enum Outcome {
    Kv(KvOut),
    Http(u32, HttpOut),
    Time(TimeOut),
    Platform(String),
    Zoo(Box<Zoo>),
}

#[derive(Serialize, Deserialize, Clone, Debug, PartialEq)]
pub enum Event {
    Do(Job),
    Got(Outcome),
}

#[derive(Default)]
pub struct Model {
    pub log: Vec<Outcome>,
}

#[derive(Serialize, Deserialize, Clone, Debug, PartialEq, Default)]
pub struct ViewModel {
    pub log: Vec<Outcome>,
}

// ---------------------------------------------------------------------------
// Effects
// ---------------------------------------------------------------------------

pub mod d {
    use super::Event;
    use crux_core::macros::{Effect, Export};
    use crux_core::compose::Compose;
    use crux_core::render::Render;
    use crux_http::Http;
    use crux_kv::KeyValue;
    use crux_platform::Platform;
    use crux_time::Time;

    #[derive(Effect, Export)]
    pub struct Capabilities {
        #[effect(skip)]
        pub compose: Compose<Event>,
        pub http: Http<Event>,
        pub kv: KeyValue<Event>,
        pub platform: Platform<Event>,
        pub render: Render<Event>,
        pub time: Time<Event>,
    }
}

pub mod m {
    use crux_core::macros::effect;
    use crux_core::render::RenderOperation;
    use crux_http::protocol::HttpRequest;
    use crux_kv::KeyValueOperation;
    use crux_platform::PlatformRequest;
    use crux_time::TimeRequest;

    #[effect(typegen)]
    pub enum Effect {
        Http(HttpRequest),
        KeyValue(KeyValueOperation),
        Platform(PlatformRequest),
        Render(RenderOperation),
        Time(TimeRequest),
    }
}

/// Uniform view of both effect types for the drivers
pub enum AnyReq {
    Http(crux_core::Request<HttpRequest>),
    Kv(crux_core::Request<KeyValueOperation>),
    Platform(crux_core::Request<PlatformRequest>),
    Render(crux_core::Request<crux_core::render::RenderOperation>),
    Time(crux_core::Request<TimeRequest>),
}

pub trait CapEffect:
    Send
    + Unpin
    + 'static
    + From<crux_core::Request<HttpRequest>>
    + From<crux_core::Request<KeyValueOperation>>
    + From<crux_core::Request<PlatformRequest>>
    + From<crux_core::Request<crux_core::render::RenderOperation>>
    + From<crux_core::Request<TimeRequest>>
{
    fn split(self) -> AnyReq;
}

impl CapEffect for d::Effect {
    fn split(self) -> AnyReq {
        match self {
            d::Effect::Http(r) => AnyReq::Http(r),
            d::Effect::KeyValue(r) => AnyReq::Kv(r),
            d::Effect::Platform(r) => AnyReq::Platform(r),
            d::Effect::Render(r) => AnyReq::Render(r),
            d::Effect::Time(r) => AnyReq::Time(r),
        }
    }
}

impl CapEffect for m::Effect {
    fn split(self) -> AnyReq {
        match self {
            m::Effect::Http(r) => AnyReq::Http(r),
            m::Effect::KeyValue(r) => AnyReq::Kv(r),
            m::Effect::Platform(r) => AnyReq::Platform(r),
            m::Effect::Render(r) => AnyReq::Render(r),
            m::Effect::Time(r) => AnyReq::Time(r),
        }
    }
}

// ---------------------------------------------------------------------------
// Running jobs
// ---------------------------------------------------------------------------

fn data(r: Result<Option<Vec<u8>>, KeyValueError>) -> Event {
    Event::Got(Outcome::Kv(match r {
        Ok(v) => KvOut::Data(v.map(ByteBuf)),
        Err(e) => KvOut::Err(e.into()),
    }))
}

fn kv_command<Ef: CapEffect>(job: KvJob) -> Command<Ef, Event> {
    use crux_kv::command::KeyValue;
    match job {
        KvJob::Get { key } => KeyValue::get(key).then_send(data),
        KvJob::Set { key, value } => KeyValue::set(key, value.0).then_send(data),
        KvJob::Delete { key } => KeyValue::delete(key).then_send(data),
        KvJob::Exists { key } => KeyValue::exists(key).then_send(|r| {
            Event::Got(Outcome::Kv(match r {
                Ok(b) => KvOut::Exists(b),
                Err(e) => KvOut::Err(e.into()),
            }))
        }),
        KvJob::ListKeys { prefix, cursor } => KeyValue::list_keys(prefix, cursor).then_send(|r| {
            Event::Got(Outcome::Kv(match r {
                Ok((k, c)) => KvOut::Keys(k, c),
                Err(e) => KvOut::Err(e.into()),
            }))
        }),
    }
}

/// How the capability-API key-value jobs are run: 0 = callback flavour, 1 = the `*_async`
/// futures awaited in a task spawned through `Compose`, 2 = the same, but the future is first
/// probed once without blocking (a poll with a throw-away waker, what `now_or_never` on
/// `&mut fut` does) and then awaited - the waker of the second poll is the one that counts.
pub static KV_LEGACY_FLAVOUR: std::sync::atomic::AtomicU8 = std::sync::atomic::AtomicU8::new(0);

struct ThrowAwayWaker;

impl std::task::Wake for ThrowAwayWaker {
    fn wake(self: std::sync::Arc<Self>) {}
}

async fn probed<T>(fut: impl std::future::Future<Output = T>, probe_first: bool) -> T {
    let mut fut = Box::pin(fut);
    if probe_first {
        let w = std::task::Waker::from(std::sync::Arc::new(ThrowAwayWaker));
        if let std::task::Poll::Ready(v) = fut.as_mut().poll(&mut std::task::Context::from_waker(&w)) {
            return v;
        }
    }
    fut.await
}

fn kv_legacy_async(job: KvJob, caps: &d::Capabilities, probe_first: bool) {
    let kv = caps.kv.clone();
    caps.compose.spawn(move |ctx| async move {
        let ev = match job {
            KvJob::Get { key } => data(probed(kv.get_async(key), probe_first).await),
            KvJob::Set { key, value } => data(probed(kv.set_async(key, value.0), probe_first).await),
            KvJob::Delete { key } => data(probed(kv.delete_async(key), probe_first).await),
            KvJob::Exists { key } => Event::Got(Outcome::Kv(match probed(kv.exists_async(key), probe_first).await {
                Ok(b) => KvOut::Exists(b),
                Err(e) => KvOut::Err(e.into()),
            })),
            KvJob::ListKeys { prefix, cursor } => Event::Got(Outcome::Kv(match probed(kv.list_keys_async(prefix, cursor), probe_first).await {
                Ok((k, c)) => KvOut::Keys(k, c),
                Err(e) => KvOut::Err(e.into()),
            })),
        };
        ctx.update_app(ev);
    });
}

fn kv_legacy(job: KvJob, caps: &d::Capabilities) {
    match KV_LEGACY_FLAVOUR.load(std::sync::atomic::Ordering::Relaxed) {
        0 => {}
        f => return kv_legacy_async(job, caps, f == 2),
    }
    match job {
        KvJob::Get { key } => caps.kv.get(key, data),
        KvJob::Set { key, value } => caps.kv.set(key, value.0, data),
        KvJob::Delete { key } => caps.kv.delete(key, data),
        KvJob::Exists { key } => caps.kv.exists(key, |r| {
            Event::Got(Outcome::Kv(match r {
                Ok(b) => KvOut::Exists(b),
                Err(e) => KvOut::Err(e.into()),
            }))
        }),
        KvJob::ListKeys { prefix, cursor } => caps.kv.list_keys(prefix, cursor, |r| {
            Event::Got(Outcome::Kv(match r {
                Ok((k, c)) => KvOut::Keys(k, c),
                Err(e) => KvOut::Err(e.into()),
            }))
        }),
    }
}

fn method_of(m: &str) -> Method {
    m.trim_end_matches('!').parse::<Method>().expect("method known to http-types")
}

/// `METHOD!` in a job means: use the API's named constructor (`get`, `post`, ...) instead of the
/// generic `request(method, url)`
macro_rules! start_request {
    ($api:expr, $method:expr, $url:expr) => {{
        let named = $method.ends_with('!');
        match ($method.trim_end_matches('!'), named) {
            ("GET", true) => $api.get($url),
            ("HEAD", true) => $api.head($url),
            ("POST", true) => $api.post($url),
            ("PUT", true) => $api.put($url),
            ("DELETE", true) => $api.delete($url),
            ("CONNECT", true) => $api.connect($url),
            ("OPTIONS", true) => $api.options($url),
            ("TRACE", true) => $api.trace($url),
            ("PATCH", true) => $api.patch($url),
            (m, _) => $api.request(method_of(m), $url),
        }
    }};
}

/// A reader that yields the given bytes; `Body::from_reader` needs AsyncBufRead
fn reader_body(bytes: Vec<u8>, sized: bool) -> Body {
    let len = bytes.len();
    let cursor = futures::io::Cursor::new(bytes);
    Body::from_reader(cursor, if sized { Some(len) } else { None })
}

fn header_values(values: &[String]) -> Vec<HeaderValue> {
    values
        .iter()
        .map(|v| v.parse::<HeaderValue>().expect("ASCII header value"))
        .collect()
}

fn pairs_to_vec(pairs: &[Pair]) -> Vec<(String, String)> {
    pairs.iter().map(|p| (p.k.clone(), p.v.clone())).collect()
}

/// a "query struct": serialises as a map (serde_qs rejects top-level sequences)
fn pairs_to_map(pairs: &[Pair]) -> std::collections::BTreeMap<String, String> {
    pairs.iter().map(|p| (p.k.clone(), p.v.clone())).collect()
}

fn headers_out<B>(r: &Response<B>) -> Vec<Pair> {
    let mut v: Vec<Pair> = r
        .iter()
        .flat_map(|(name, values)| {
            values.iter().map(move |val| Pair {
                k: name.as_str().to_string(),
                v: val.as_str().to_string(),
            })
        })
        .collect();
    v.sort_by(|a, b| (a.k.as_str(), a.v.as_str()).cmp(&(b.k.as_str(), b.v.as_str())));
    v
}

fn http_out_bytes(id: u32, r: crux_http::Result<Response<Vec<u8>>>) -> Event {
    Event::Got(Outcome::Http(
        id,
        match r {
            Ok(mut r) => HttpOut::Ok {
                status: r.status() as u16,
                headers: headers_out(&r),
                body: match r.take_body() {
                    Some(b) => BodyOut::Bytes(ByteBuf(b)),
                    None => BodyOut::Missing,
                },
            },
            Err(e) => HttpOut::Err(e.into()),
        },
    ))
}

fn http_out_text(id: u32, r: crux_http::Result<Response<String>>) -> Event {
    Event::Got(Outcome::Http(
        id,
        match r {
            Ok(mut r) => HttpOut::Ok {
                status: r.status() as u16,
                headers: headers_out(&r),
                body: match r.take_body() {
                    Some(b) => BodyOut::Text(b),
                    None => BodyOut::Missing,
                },
            },
            Err(e) => HttpOut::Err(e.into()),
        },
    ))
}

fn http_out_json(id: u32, r: crux_http::Result<Response<serde_json::Value>>) -> Event {
    Event::Got(Outcome::Http(
        id,
        match r {
            Ok(mut r) => HttpOut::Ok {
                status: r.status() as u16,
                headers: headers_out(&r),
                body: match r.take_body() {
                    Some(b) => BodyOut::Json(serde_json::to_string(&b).unwrap()),
                    None => BodyOut::Missing,
                },
            },
            Err(e) => HttpOut::Err(e.into()),
        },
    ))
}

/// Everything both request builders have in common, written once as a macro because the two
/// builder types share no trait
macro_rules! configure {
    ($b:expr, $job:expr) => {{
        let mut b = $b;
        let job = $job;
        if let (Some(ct), false) = (&job.content_type, job.content_type_after_body) {
            b = b.content_type(ct.parse::<Mime>().expect("mime"));
        }
        for h in &job.headers {
            let vals = header_values(&h.values);
            b = b.header(h.name.as_str(), &vals[..]);
        }
        b = match &job.body {
            BodyJob::NoBody => b,
            BodyJob::Bytes(x) => b.body_bytes(&x.0),
            BodyJob::Text(s) => b.body_string(s.clone()),
            BodyJob::Json(s) => {
                let v: serde_json::Value = serde_json::from_str(s).expect("json text");
                b.body_json(&v).expect("json body")
            }
            BodyJob::Form(pairs) => b.body_form(&pairs_to_vec(pairs)).expect("form body"),
            BodyJob::Typed { .. } => b.body_json(&job.body.typed().unwrap()).expect("json body"),
            BodyJob::Reader(x) => b.body(reader_body(x.0.clone(), false)),
            BodyJob::SizedReader(x) => b.body(reader_body(x.0.clone(), true)),
        };
        if let (Some(ct), true) = (&job.content_type, job.content_type_after_body) {
            b = b.content_type(ct.parse::<Mime>().expect("mime"));
        }
        if let Some(q) = &job.query {
            b = b.query(&pairs_to_map(q)).expect("query");
        }
        for m in &job.request_mw {
            b = mw::attach!(b, m, job.id);
        }
        b
    }};
}

fn http_command<Ef: CapEffect>(job: HttpJob) -> Command<Ef, Event> {
    use crux_http::command::Http;
    let url: Url = job.url.parse().expect("absolute url");
    struct CommandApi<Ef>(std::marker::PhantomData<Ef>);
    #[allow(dead_code)]
    impl<Ef: CapEffect> CommandApi<Ef> {
        fn get(&self, u: Url) -> crux_http::command::RequestBuilder<Ef, Event> { Http::<Ef, Event>::get(u) }
        fn head(&self, u: Url) -> crux_http::command::RequestBuilder<Ef, Event> { Http::<Ef, Event>::head(u) }
        fn post(&self, u: Url) -> crux_http::command::RequestBuilder<Ef, Event> { Http::<Ef, Event>::post(u) }
        fn put(&self, u: Url) -> crux_http::command::RequestBuilder<Ef, Event> { Http::<Ef, Event>::put(u) }
        fn delete(&self, u: Url) -> crux_http::command::RequestBuilder<Ef, Event> { Http::<Ef, Event>::delete(u) }
        fn connect(&self, u: Url) -> crux_http::command::RequestBuilder<Ef, Event> { Http::<Ef, Event>::connect(u) }
        fn options(&self, u: Url) -> crux_http::command::RequestBuilder<Ef, Event> { Http::<Ef, Event>::options(u) }
        fn trace(&self, u: Url) -> crux_http::command::RequestBuilder<Ef, Event> { Http::<Ef, Event>::trace(u) }
        fn patch(&self, u: Url) -> crux_http::command::RequestBuilder<Ef, Event> { Http::<Ef, Event>::patch(u) }
        fn request(&self, m: Method, u: Url) -> crux_http::command::RequestBuilder<Ef, Event> { Http::<Ef, Event>::request(m, u) }
    }
    let api = CommandApi::<Ef>(std::marker::PhantomData);
    let b = start_request!(api, job.method.as_str(), url);
    let b = configure!(b, &job);
    let id = job.id;
    match job.expect {
        ExpectJob::Bytes => b.build().then_send(move |r| http_out_bytes(id, r)),
        ExpectJob::Text => b.expect_string().build().then_send(move |r| http_out_text(id, r)),
        ExpectJob::Json => b
            .expect_json::<serde_json::Value>()
            .build()
            .then_send(move |r| http_out_json(id, r)),
    }
}

fn http_legacy(job: HttpJob, caps: &d::Capabilities) {
    let url: Url = job.url.parse().expect("absolute url");
    let mut http = caps.http.clone();
    for m in &job.client_mw {
        http = mw::attach_client(http, m, job.id);
    }
    let b = start_request!(http, job.method.as_str(), url);
    let b = configure!(b, &job);
    let id = job.id;
    if job.send_async {
        // read everything through ResponseAsync by hand
        let expect = job.expect;
        let fut = b.send_async();
        caps.compose.spawn(|ctx| async move {
            let out = match fut.await {
                Ok(mut res) => {
                    let status = res.status() as u16;
                    let mut headers: Vec<Pair> = res
                        .iter()
                        .flat_map(|(n, vs)| {
                            vs.iter()
                                .map(|v| Pair {
                                    k: n.as_str().to_string(),
                                    v: v.as_str().to_string(),
                                })
                                .collect::<Vec<_>>()
                        })
                        .collect();
                    headers.sort_by(|a, b| (a.k.as_str(), a.v.as_str()).cmp(&(b.k.as_str(), b.v.as_str())));
                    let body = match expect {
                        ExpectJob::Bytes => res.body_bytes().await.map(|b| BodyOut::Bytes(ByteBuf(b))),
                        ExpectJob::Text => res.body_string().await.map(BodyOut::Text),
                        ExpectJob::Json => res
                            .body_json::<serde_json::Value>()
                            .await
                            .map(|v| BodyOut::Json(serde_json::to_string(&v).unwrap())),
                    };
                    match body {
                        Ok(body) => HttpOut::Ok {
                            status,
                            headers,
                            body,
                        },
                        Err(e) => HttpOut::Err(e.into()),
                    }
                }
                Err(e) => HttpOut::Err(e.into()),
            };
            ctx.update_app(Event::Got(Outcome::Http(id, out)));
        });
        return;
    }
    match job.expect {
        ExpectJob::Bytes => b.send(move |r| http_out_bytes(id, r)),
        ExpectJob::Text => b.expect_string().send(move |r| http_out_text(id, r)),
        ExpectJob::Json => b
            .expect_json::<serde_json::Value>()
            .send(move |r| http_out_json(id, r)),
    }
}

fn time_command<Ef: CapEffect>(job: TimeJob) -> Command<Ef, Event> {
    use crux_time::command::{Time, TimerOutcome};
    match job {
        TimeJob::Now => Time::now().then_send(|t: std::time::SystemTime| {
            let i: crux_time::Instant = t.into();
            let (s, n) = instant_parts(&i);
            Event::Got(Outcome::Time(TimeOut::Now(s, n)))
        }),
        TimeJob::NotifyAfterNanos(n) => {
            let (b, handle) = Time::notify_after(std::time::Duration::from_nanos(n));
            // the handle is dropped: that must not cancel the timer
            drop(handle);
            b.then_send(|o| {
                Event::Got(Outcome::Time(match o {
                    TimerOutcome::Completed(_) => TimeOut::Completed(0),
                    TimerOutcome::Cleared => TimeOut::Cleared(0),
                }))
            })
        }
        TimeJob::NotifyAtSecs(s, n) => {
            let at = std::time::SystemTime::UNIX_EPOCH + std::time::Duration::new(s, n);
            let (b, handle) = Time::notify_at(at);
            drop(handle);
            b.then_send(|o| {
                Event::Got(Outcome::Time(match o {
                    TimerOutcome::Completed(_) => TimeOut::Completed(0),
                    TimerOutcome::Cleared => TimeOut::Cleared(0),
                }))
            })
        }
        TimeJob::Clear(_) => Command::done(),
        TimeJob::SetThenClearNanos(n) => {
            let (b, handle) = Time::notify_after(std::time::Duration::from_nanos(n));
            handle.clear();
            b.then_send(|o| {
                Event::Got(Outcome::Time(match o {
                    TimerOutcome::Completed(_) => TimeOut::Completed(0),
                    TimerOutcome::Cleared => TimeOut::Cleared(0),
                }))
            })
        }
    }
}

pub fn instant_parts(i: &crux_time::Instant) -> (u64, u32) {
    // the fields are private: go through serde
    let v = serde_json::to_value(i).unwrap();
    (
        v["seconds"].as_u64().unwrap(),
        v["nanos"].as_u64().unwrap() as u32,
    )
}

fn time_legacy(job: TimeJob, caps: &d::Capabilities) {
    let report = |r: TimeResponse| {
        Event::Got(Outcome::Time(match r {
            TimeResponse::Now { instant } => {
                let (s, n) = instant_parts(&instant);
                TimeOut::Now(s, n)
            }
            TimeResponse::InstantArrived { id } | TimeResponse::DurationElapsed { id } => {
                TimeOut::Completed(id.0 as u64)
            }
            TimeResponse::Cleared { id } => TimeOut::Cleared(id.0 as u64),
        }))
    };
    match job {
        TimeJob::Now => caps.time.now(report),
        TimeJob::NotifyAfterNanos(n) => {
            let id = caps.time.notify_after(std::time::Duration::from_nanos(n), report);
            LAST_TIMER_ID.lock().unwrap().replace(id.0 as u64);
        }
        TimeJob::NotifyAtSecs(s, n) => {
            let at = std::time::SystemTime::UNIX_EPOCH + std::time::Duration::new(s, n);
            let id = caps.time.notify_at(at, report);
            LAST_TIMER_ID.lock().unwrap().replace(id.0 as u64);
        }
        TimeJob::Clear(id) => caps.time.clear(TimerId(id as usize)),
        TimeJob::SetThenClearNanos(n) => {
            let id = caps.time.notify_after(std::time::Duration::from_nanos(n), report);
            caps.time.clear(id);
            LAST_TIMER_ID.lock().unwrap().replace(id.0 as u64);
        }
    }
}

/// id of the timer the legacy API created last (ids are process-global and unpredictable)
pub static LAST_TIMER_ID: Mutex<Option<u64>> = Mutex::new(None);

fn run_job<Ef: CapEffect>(job: Job, caps: Option<&d::Capabilities>) -> Command<Ef, Event> {
    match job {
        Job::Kv(Api::Command, j) => kv_command(j),
        Job::Kv(Api::Legacy, j) => {
            kv_legacy(j, caps.expect("legacy API needs the derive app"));
            Command::done()
        }
        Job::Http(Api::Command, j) => http_command(j),
        Job::Http(Api::Legacy, j) => {
            http_legacy(j, caps.expect("legacy API needs the derive app"));
            Command::done()
        }
        Job::Time(Api::Command, j) => time_command(j),
        Job::Time(Api::Legacy, j) => {
            time_legacy(j, caps.expect("legacy API needs the derive app"));
            Command::done()
        }
        Job::Platform => match caps {
            Some(caps) => {
                caps.platform
                    .get(|r| Event::Got(Outcome::Platform(r.0)));
                Command::done()
            }
            None => Command::request_from_shell(PlatformRequest)
                .then_send(|r| Event::Got(Outcome::Platform(r.0))),
        },
        Job::Render(Api::Command) => render(),
        Job::Render(Api::Legacy) => {
            caps.expect("legacy API needs the derive app").render.render();
            Command::done()
        }
        Job::Zoo(z) => Command::event(Event::Got(Outcome::Zoo(z))),
        Job::Batch(jobs) => Command::all(jobs.into_iter().map(|j| run_job::<Ef>(j, caps))),
    }
}

/// the heap-occupancy monitor (C13) switches the app's own log off: it grows by design
pub static KEEP_LOG: std::sync::atomic::AtomicBool = std::sync::atomic::AtomicBool::new(true);

fn apply<Ef: CapEffect>(event: Event, model: &mut Model, caps: Option<&d::Capabilities>) -> Command<Ef, Event> {
    match event {
        Event::Do(job) => run_job(job, caps),
        Event::Got(o) => {
            if KEEP_LOG.load(std::sync::atomic::Ordering::Relaxed) {
                model.log.push(o);
            }
            Command::done()
        }
    }
}

#[derive(Default)]
pub struct AppD;

impl crux_core::App for AppD {
    type Event = Event;
    type Model = Model;
    type ViewModel = ViewModel;
    type Capabilities = d::Capabilities;
    type Effect = d::Effect;

    fn update(&self, event: Event, model: &mut Model, caps: &d::Capabilities) -> Command<d::Effect, Event> {
        apply(event, model, Some(caps))
    }
    fn view(&self, model: &Model) -> ViewModel {
        ViewModel {
            log: model.log.clone(),
        }
    }
}

#[derive(Default)]
pub struct AppM;

impl crux_core::App for AppM {
    type Event = Event;
    type Model = Model;
    type ViewModel = ViewModel;
    type Capabilities = ();
    type Effect = m::Effect;

    fn update(&self, event: Event, model: &mut Model, _caps: &()) -> Command<m::Effect, Event> {
        apply(event, model, None)
    }
    fn view(&self, model: &Model) -> ViewModel {
        ViewModel {
            log: model.log.clone(),
        }
    }
}

#[allow(unused)]
fn _assert_render<Ev: 'static>(_r: &Render<Ev>) {}
