//! C10: the schema the type generator traces vs. the bytes on the bridge, both directions,
//! decided by an independent schema-driven codec (caplab::wire).

use std::sync::{Arc, Mutex};
use std::time::Duration;

use bincode::Options;
use caplab::app::*;
use caplab::wire::*;
use crux_core::bridge::Bridge;
use crux_core::typegen::{State, TypeGen};
use crux_core::Core;
use serde::de::DeserializeOwned;
use serde::Serialize;
use serde_json::json;
use serde_reflection::{ContainerFormat, Format, Registry};
use vcommon::{fnv64, Args, Report, Rng, Watchdog};

fn opts() -> impl bincode::Options + Copy {
    bincode::DefaultOptions::new()
        .with_fixint_encoding()
        .allow_trailing_bytes()
}

fn registry_of<A>() -> Result<Registry, String>
where
    A: crux_core::App,
    A::Effect: crux_core::typegen::Export,
    A::Event: serde::Deserialize<'static>,
    A::ViewModel: serde::Deserialize<'static> + 'static,
{
    let mut g = TypeGen::new();
    // nested enums have to be registered on their own, innermost first (what an app's
    // build.rs does with `register_type`)
    macro_rules! reg {
        ($($t:ty),*) => { $( g.register_type::<$t>().map_err(|e| e.to_string())?; )* };
    }
    reg!(Api, KvJob, BodyJob, ExpectJob, MwJob, TimeJob, ZooEnum, KvErr, KvOut, BodyOut, HttpErrOut, HttpOut, TimeOut, Job, Outcome);
    g.register_app::<A>().map_err(|e| e.to_string())?;
    finish(g)
}

/// where generated sources are written (and removed again): next to the worker's report
static SCRATCH: std::sync::OnceLock<std::path::PathBuf> = std::sync::OnceLock::new();

/// Let the generator itself turn what it traced into the registry it generates code from (the
/// production path, `TypeGen::java`), and take that registry
fn finish(mut g: TypeGen) -> Result<Registry, String> {
    static N: std::sync::atomic::AtomicU64 = std::sync::atomic::AtomicU64::new(0);
    let base = SCRATCH.get().cloned().unwrap_or_else(std::env::temp_dir);
    let dir = base.join(format!("wirelab-generated-{}-{}", std::process::id(), N.fetch_add(1, std::sync::atomic::Ordering::Relaxed)));
    let r = g.java("com.verif.shared", &dir);
    let _ = std::fs::remove_dir_all(&dir);
    r.map_err(|e| format!("the generator refused: {e}"))?;
    match std::mem::replace(&mut g.state, State::Generating(Registry::new())) {
        State::Registering(tracer, _samples) => tracer.registry().map_err(|e| e.to_string()),
        State::Generating(r) => Ok(r),
    }
}

/// The same app types, but the nested enums are *not* registered on their own first (a step an
/// app's build script can forget): the generator must refuse, or what it hands out must still be
/// the complete schema.
fn registry_with_forgotten_registrations() -> Result<Registry, String> {
    let mut g = TypeGen::new();
    g.register_type::<Outcome>().map_err(|e| e.to_string())?;
    g.register_type::<Job>().map_err(|e| e.to_string())?;
    finish(g)
}

/// bytes -> Rust value -> bytes, through the real serde implementations
fn rt<T: Serialize + DeserializeOwned>(bytes: &[u8]) -> Result<Vec<u8>, String> {
    // the bridge allows trailing bytes; a single value must still consume everything here
    let v: T = bincode::DefaultOptions::new()
        .with_fixint_encoding()
        .reject_trailing_bytes()
        .deserialize(bytes)
        .map_err(|e| e.to_string())?;
    opts().serialize(&v).map_err(|e| e.to_string())
}

type Rt = fn(&[u8]) -> Result<Vec<u8>, String>;

/// Rust type behind every container name the schema may contain (for one app flavour)
fn type_table(derive: bool) -> Vec<(&'static str, Rt)> {
    use crux_core::render::RenderOperation;
    use crux_http::protocol::{HttpHeader, HttpRequest, HttpResponse, HttpResult};
    use crux_kv::{error::KeyValueError, value::Value, KeyValueOperation, KeyValueResponse, KeyValueResult};
    use crux_platform::{PlatformRequest, PlatformResponse};
    use crux_time::{Duration as TDuration, Instant, TimeRequest, TimeResponse, TimerId};
    let mut t: Vec<(&'static str, Rt)> = vec![
        ("Event", rt::<Event>),
        ("ViewModel", rt::<ViewModel>),
        ("Job", rt::<Job>),
        ("Api", rt::<Api>),
        ("KvJob", rt::<KvJob>),
        ("ByteBuf", rt::<ByteBuf>),
        ("BodyJob", rt::<BodyJob>),
        ("Pair", rt::<Pair>),
        ("HeaderJob", rt::<HeaderJob>),
        ("ExpectJob", rt::<ExpectJob>),
        ("MwJob", rt::<MwJob>),
        ("HttpJob", rt::<HttpJob>),
        ("TimeJob", rt::<TimeJob>),
        ("Zoo", rt::<Zoo>),
        ("ZooNew", rt::<ZooNew>),
        ("ZooTuple", rt::<ZooTuple>),
        ("ZooEnum", rt::<ZooEnum>),
        ("KvErr", rt::<KvErr>),
        ("KvOut", rt::<KvOut>),
        ("BodyOut", rt::<BodyOut>),
        ("HttpErrOut", rt::<HttpErrOut>),
        ("HttpOut", rt::<HttpOut>),
        ("TimeOut", rt::<TimeOut>),
        ("Outcome", rt::<Outcome>),
        ("HttpRequest", rt::<HttpRequest>),
        ("HttpHeader", rt::<HttpHeader>),
        ("HttpResponse", rt::<HttpResponse>),
        ("HttpResult", rt::<HttpResult>),
        ("HttpError", rt::<crux_http::HttpError>),
        ("KeyValueOperation", rt::<KeyValueOperation>),
        ("KeyValueResult", rt::<KeyValueResult>),
        ("KeyValueResponse", rt::<KeyValueResponse>),
        ("KeyValueError", rt::<KeyValueError>),
        ("Value", rt::<Value>),
        ("TimeRequest", rt::<TimeRequest>),
        ("TimeResponse", rt::<TimeResponse>),
        ("TimerId", rt::<TimerId>),
        ("Instant", rt::<Instant>),
        ("Duration", rt::<TDuration>),
        ("PlatformRequest", rt::<PlatformRequest>),
        ("PlatformResponse", rt::<PlatformResponse>),
        ("RenderOperation", rt::<RenderOperation>),
    ];
    if derive {
        t.push(("Effect", rt::<d::EffectFfi>));
        t.push(("Request", rt::<crux_core::bridge::Request<d::EffectFfi>>));
    } else {
        t.push(("Effect", rt::<m::EffectFfi>));
        t.push(("Request", rt::<crux_core::bridge::Request<m::EffectFfi>>));
    }
    t
}

fn ser<T: Serialize>(v: &T) -> Vec<u8> {
    opts().serialize(v).expect("serialises")
}

/// Values of the crux protocol types built in Rust (all variants, edge values), independent
/// of the schema: (type name, bytes Rust writes)
fn rust_samples(rng: &mut Rng) -> Vec<(&'static str, Vec<u8>)> {
    use crux_http::protocol::{HttpHeader, HttpRequest, HttpResponse, HttpResult};
    use crux_http::HttpError;
    use crux_kv::{error::KeyValueError, value::Value, KeyValueOperation, KeyValueResponse, KeyValueResult};
    use crux_time::{TimeRequest, TimeResponse, TimerId};
    let mut out: Vec<(&'static str, Vec<u8>)> = vec![];
    let s = |rng: &mut Rng| -> String {
        match rng.below(5) {
            0 => String::new(),
            1 => "héllo \u{1F980}".into(),
            2 => "x".repeat(rng.range(1, 2000) as usize),
            _ => format!("s{}", rng.next_u64()),
        }
    };
    let b = |rng: &mut Rng| -> Vec<u8> {
        let n = match rng.below(4) {
            0 => 0,
            1 => 1,
            2 => rng.range(100, 5000) as usize,
            _ => rng.range(2, 20) as usize,
        };
        rng.bytes(n)
    };
    let u = |rng: &mut Rng| -> u64 {
        *rng.pick(&[0u64, 1, u64::MAX, u64::MAX - 1, u32::MAX as u64, 1 << 63, 12345])
    };
    let headers = |rng: &mut Rng| -> Vec<HttpHeader> {
        (0..rng.below(4))
            .map(|_| HttpHeader {
                name: s(rng),
                value: s(rng),
            })
            .collect()
    };
    // variants the core makes itself and marks as not crossing the bridge: the serializer must
    // refuse them; whatever it does write has to decode under the schema like anything else
    for e in [
        HttpError::Json(s(rng)),
        HttpError::Http {
            code: crux_http::http::StatusCode::NotFound,
            message: s(rng),
            body: Some(b"nope".to_vec()),
        },
        HttpError::Http {
            code: crux_http::http::StatusCode::InternalServerError,
            message: String::new(),
            body: None,
        },
    ] {
        if let Ok(bytes) = opts().serialize(&e) {
            out.push(("HttpError", bytes));
        }
        if let Ok(bytes) = opts().serialize(&HttpResult::Err(e)) {
            out.push(("HttpResult", bytes));
        }
    }
    for _ in 0..3 {
        for e in [
            HttpError::Url(s(rng)),
            HttpError::Io(s(rng)),
            HttpError::Timeout,
        ] {
            out.push(("HttpError", ser(&e)));
            out.push(("HttpResult", ser(&HttpResult::Err(e))));
        }
        let resp = HttpResponse {
            status: *rng.pick(&[0u16, 200, 404, 599, u16::MAX]),
            headers: headers(rng),
            body: b(rng),
        };
        out.push(("HttpResponse", ser(&resp)));
        out.push(("HttpResult", ser(&HttpResult::Ok(resp))));
        out.push((
            "HttpRequest",
            ser(&HttpRequest {
                method: s(rng),
                url: s(rng),
                headers: headers(rng),
                body: b(rng),
            }),
        ));
        for op in [
            KeyValueOperation::Get { key: s(rng) },
            KeyValueOperation::Set {
                key: s(rng),
                value: b(rng),
            },
            KeyValueOperation::Delete { key: s(rng) },
            KeyValueOperation::Exists { key: s(rng) },
            KeyValueOperation::ListKeys {
                prefix: s(rng),
                cursor: u(rng),
            },
        ] {
            out.push(("KeyValueOperation", ser(&op)));
        }
        for v in [Value::None, Value::Bytes(b(rng)), Value::Bytes(vec![])] {
            out.push(("Value", ser(&v)));
            for r in [
                KeyValueResponse::Get { value: v.clone() },
                KeyValueResponse::Set { previous: v.clone() },
                KeyValueResponse::Delete { previous: v.clone() },
            ] {
                out.push(("KeyValueResponse", ser(&r)));
                out.push(("KeyValueResult", ser(&KeyValueResult::Ok { response: r })));
            }
        }
        for r in [
            KeyValueResponse::Exists {
                is_present: rng.chance(1, 2),
            },
            KeyValueResponse::ListKeys {
                keys: (0..rng.below(5)).map(|_| s(rng)).collect(),
                next_cursor: u(rng),
            },
        ] {
            out.push(("KeyValueResult", ser(&KeyValueResult::Ok { response: r })));
        }
        for e in [
            KeyValueError::Io { message: s(rng) },
            KeyValueError::Timeout,
            KeyValueError::CursorNotFound,
            KeyValueError::Other { message: s(rng) },
        ] {
            out.push(("KeyValueError", ser(&e)));
            out.push(("KeyValueResult", ser(&KeyValueResult::Err { error: e })));
        }
        let id = TimerId(u(rng) as usize);
        let instant = crux_time::Instant::new(u(rng), rng.range(0, 999_999_999) as u32);
        let dur = crux_time::Duration::new(u(rng));
        out.push(("TimerId", ser(&id)));
        out.push(("Instant", ser(&instant)));
        out.push(("Duration", ser(&dur)));
        for r in [
            TimeRequest::Now,
            TimeRequest::NotifyAt { id, instant },
            TimeRequest::NotifyAfter { id, duration: dur },
            TimeRequest::Clear { id },
        ] {
            out.push(("TimeRequest", ser(&r)));
        }
        for r in [
            TimeResponse::Now { instant },
            TimeResponse::InstantArrived { id },
            TimeResponse::DurationElapsed { id },
            TimeResponse::Cleared { id },
        ] {
            out.push(("TimeResponse", ser(&r)));
        }
        out.push(("PlatformRequest", ser(&crux_platform::PlatformRequest)));
        out.push(("PlatformResponse", ser(&crux_platform::PlatformResponse(s(rng)))));
        out.push(("RenderOperation", ser(&crux_core::render::RenderOperation)));
    }
    out
}

fn valid_jobs(rng: &mut Rng, derive: bool) -> Vec<Job> {
    let api = |rng: &mut Rng| {
        if derive && rng.chance(1, 2) {
            Api::Legacy
        } else {
            Api::Command
        }
    };
    let mut jobs = vec![
        Job::Kv(api(rng), KvJob::Get { key: "k\u{1F980}".into() }),
        Job::Kv(
            api(rng),
            KvJob::Set {
                key: String::new(),
                value: ByteBuf(rng.bytes(300)),
            },
        ),
        Job::Kv(api(rng), KvJob::Delete { key: "d".into() }),
        Job::Kv(api(rng), KvJob::Exists { key: "e".into() }),
        Job::Kv(
            api(rng),
            KvJob::ListKeys {
                prefix: "p".into(),
                cursor: u64::MAX,
            },
        ),
        Job::Time(api(rng), TimeJob::Now),
        Job::Time(api(rng), TimeJob::NotifyAfterNanos(rng.next_u64())),
        Job::Time(api(rng), TimeJob::NotifyAtSecs(rng.range(0, 1 << 40), 999_999_999)),
        Job::Platform,
        Job::Render(api(rng)),
        Job::Http(
            api(rng),
            HttpJob {
                id: 1,
                method: "POST".into(),
                url: "https://example.com/a/b?x=1".into(),
                headers: vec![
                    HeaderJob {
                        name: "X-One".into(),
                        values: vec!["a".into(), "b".into()],
                    },
                    HeaderJob {
                        name: "accept".into(),
                        values: vec!["*/*".into()],
                    },
                ],
                content_type: None,
                content_type_after_body: false,
                body: BodyJob::Bytes(ByteBuf(rng.bytes(100))),
                query: None,
                expect: ExpectJob::Bytes,
                client_mw: vec![],
                request_mw: vec![],
                send_async: false,
            },
        ),
    ];
    if derive {
        jobs.push(Job::Time(Api::Legacy, TimeJob::Clear(7)));
    }
    rng.shuffle(&mut jobs);
    jobs
}

struct Ctx<'a> {
    report: &'a mut Report,
    flavour: &'static str,
}

impl Ctx<'_> {
    fn violation(&mut self, ty: &str, what: &str, detail: serde_json::Value) {
        self.report.violation(
            &format!("wire/{ty}/{what}"),
            &format!("{ty}: {}", what.replace('-', " ")),
            json!({"lane": "wirelab", "app": self.flavour, "type": ty, "detail": detail}),
        );
    }
}

fn hex(b: &[u8]) -> String {
    let n = b.len().min(96);
    let mut s: String = b[..n].iter().map(|x| format!("{x:02x}")).collect();
    if b.len() > n {
        s.push_str(&format!("...(+{} bytes)", b.len() - n));
    }
    s
}

/// Rust bytes -> schema: decode with nothing left over, re-encode to the same bytes
fn check_rust_bytes(cx: &mut Ctx, reg: &Registry, ty: &str, bytes: &[u8]) -> bool {
    match decode_all_named(reg, ty, bytes) {
        Ok(v) => {
            let mut back = vec![];
            encode(&v, &mut back);
            if back != bytes {
                cx.violation(ty, "schema-reencoding-differs-from-the-bytes-rust-wrote", json!({"rust": hex(bytes), "schema": hex(&back)}));
                return false;
            }
            true
        }
        Err(e) => {
            cx.violation(ty, "bytes-written-by-rust-do-not-decode-under-the-schema", json!({"error": e.0, "bytes": hex(bytes)}));
            false
        }
    }
}

fn run_flavour<A>(args: &Args, report: &mut Report, derive: bool, rng: &mut Rng, n_values: u64)
where
    A: crux_core::App<Event = Event, ViewModel = ViewModel>,
    A::Effect: crux_core::typegen::Export + CapEffect,
    A::Capabilities: crux_core::WithContext<Event, A::Effect>,
{
    let _ = args;
    let flavour = if derive { "derive(Effect, Export)" } else { "#[effect(typegen)]" };
    if derive {
        report.eval();
        report.count("generator_runs_with_forgotten_registrations", 1);
        match (registry_with_forgotten_registrations(), registry_of::<A>()) {
            (Err(_), _) => {
                report.count("incomplete_traces_refused_by_the_generator", 1);
                report.nontrivial(fnv64(b"forgotten-registrations"));
            }
            (Ok(partial), Ok(full)) => {
                let differing: Vec<&String> = partial.keys().filter(|k| full.get(*k).map(|f| format!("{f:?}")) != partial.get(*k).map(|p| format!("{p:?}"))).collect();
                if differing.is_empty() {
                    report.nontrivial(fnv64(b"forgotten-registrations"));
                } else {
                    report.violation(
                        "wire/registry/incomplete-schema-handed-out",
                        &format!("with the nested enums not registered on their own the generator did not refuse but handed out a schema in which {differing:?} differ from the complete schema"),
                        json!({"lane": "wirelab", "differing": differing}),
                    );
                }
            }
            (Ok(_), Err(_)) => {}
        }
    }
    let reg = match registry_of::<A>() {
        Ok(r) => r,
        Err(e) => {
            report.violation(
                "wire/registry/tracing-failed",
                "type generation could not trace the app's types",
                json!({"lane": "wirelab", "app": flavour, "error": e}),
            );
            return;
        }
    };
    let mut cx = Ctx { report, flavour };
    cx.report.count("containers_in_schema", reg.len() as u64);
    let table = type_table(derive);

    // closure + coverage of the schema by the harness table
    for (name, c) in &reg {
        cx.report.set("containers", name.clone());
        for r in container_refs(c) {
            if !reg.contains_key(&r) {
                cx.violation(name, "refers-to-a-type-the-schema-does-not-define", json!({"missing": r}));
            }
        }
        if !table.iter().any(|(n, _)| n == name) {
            cx.report
                .inconclusive(format!("the schema contains a container `{name}` the harness has no Rust type for"));
        }
    }
    for (name, _) in &table {
        if !reg.contains_key(*name) {
            cx.violation(name, "type-crosses-the-bridge-but-is-not-in-the-schema", json!({}));
        }
    }

    // ---- direction 1: Rust-built protocol values -> schema -------------------------------
    for (ty, bytes) in rust_samples(rng) {
        if !reg.contains_key(ty) {
            continue;
        }
        cx.report.eval();
        cx.report.count("rust_values_decoded_under_schema", 1);
        if check_rust_bytes(&mut cx, &reg, ty, &bytes) {
            cx.report.nontrivial(fnv64(&bytes) ^ fnv64(ty.as_bytes()));
        }
    }

    // ---- direction 2: schema-generated values -> Rust -> bytes -----------------------------
    let mut variants_total = 0usize;
    let mut variants_hit = 0usize;
    {
        let mut rng2 = Rng::derive(rng.next_u64(), 1, 2);
        let mut gen = ValueGen::new(&reg, &mut rng2);
        for (name, f) in &table {
            if !reg.contains_key(*name) {
                continue;
            }
            for i in 0..n_values {
                gen.max_depth = if i % 5 == 0 { 3 } else { 6 };
                let v = gen.named(name, 0);
                let mut bytes = vec![];
                encode(&v, &mut bytes);
                cx.report.eval();
                cx.report.count("schema_values_offered_to_rust", 1);
                cx.report.max("max_encoded_len", bytes.len() as u64);
                match f(&bytes) {
                    Ok(back) => {
                        if back != bytes {
                            cx.violation(name, "rust-rewrites-a-schema-valid-encoding-differently", json!({"offered": hex(&bytes), "rust": hex(&back)}));
                        } else {
                            cx.report.nontrivial(fnv64(&bytes) ^ fnv64(name.as_bytes()));
                            if i < 1 && cx.report.samples.len() < 4 {
                                let b = bytes.clone();
                                cx.report.sample(|| json!({"type": name, "bytes": hex(&b), "direction": "schema -> Rust -> bytes"}));
                            }
                        }
                    }
                    Err(e) => {
                        cx.violation(name, "rust-rejects-a-schema-valid-encoding", json!({"error": e, "bytes": hex(&bytes)}));
                    }
                }
            }
        }
        for (name, c) in &reg {
            if let ContainerFormat::Enum(vs) = c {
                variants_total += vs.len();
                variants_hit += gen.variants_seen.get(name).map(|s| s.len()).unwrap_or(0);
            }
        }
    }
    cx.report.count("enum_variants_in_schema", variants_total as u64);
    cx.report.count("enum_variants_generated", variants_hit as u64);

    // ---- the bridge itself: emitted effect batches and views decode under the schema -----------
    let bridge: Bridge<A> = Bridge::new(Core::new());
    let req_seq = Format::Seq(Box::new(Format::TypeName("Request".into())));
    let mut pending: Vec<(u32, String)> = vec![];
    for job in valid_jobs(rng, derive) {
        let ev = Event::Do(job.clone());
        let out = match bridge.process_event(&ser(&ev)) {
            Ok(o) => o,
            Err(e) => {
                cx.violation("Event", "bridge-rejects-an-event-rust-serialised", json!({"error": e.to_string(), "job": format!("{job:?}")}));
                continue;
            }
        };
        cx.report.eval();
        cx.report.count("bridge_effect_batches_decoded", 1);
        match decode_all(&reg, &req_seq, &out) {
            Ok(V::Seq(reqs)) => {
                for r in reqs {
                    // Request = struct { id: u32, effect: Effect }
                    if let V::Tuple(fields) = &r {
                        if let (Some(V::U(id, _)), Some(V::Variant(idx, _))) = (fields.first(), fields.get(1)) {
                            let variant_name = match reg.get("Effect") {
                                Some(ContainerFormat::Enum(vs)) => vs.get(idx).map(|v| v.name.clone()).unwrap_or_default(),
                                _ => String::new(),
                            };
                            cx.report.set("effect_variants_emitted", variant_name.clone());
                            pending.push((*id as u32, variant_name));
                        }
                    }
                }
                cx.report.nontrivial(fnv64(&out));
            }
            Ok(_) => unreachable!(),
            Err(e) => cx.violation("Request", "effect-batch-from-the-bridge-does-not-decode-under-the-schema", json!({"error": e.0, "bytes": hex(&out)})),
        }
    }
    // responses built in Rust, checked against the schema, then offered to the bridge
    {
        use crux_http::protocol::{HttpHeader, HttpResponse, HttpResult};
        use crux_kv::{value::Value, KeyValueResponse, KeyValueResult};
        for (id, variant) in pending {
            let (ty, bytes): (&str, Vec<u8>) = match variant.as_str() {
                "Http" => (
                    "HttpResult",
                    ser(&HttpResult::Ok(HttpResponse {
                        status: 200,
                        headers: vec![HttpHeader {
                            name: "content-type".into(),
                            value: "text/plain".into(),
                        }],
                        body: rng.bytes(50),
                    })),
                ),
                "Platform" => ("PlatformResponse", ser(&crux_platform::PlatformResponse("ios".into()))),
                // the right response kind depends on the operation: an error fits them all
                "KeyValue" | "Kv" => (
                    "KeyValueResult",
                    ser(&KeyValueResult::Err {
                        error: crux_kv::error::KeyValueError::Timeout,
                    }),
                ),
                _ => continue, // Render: no response; Time: needs the id of the request, see below
            };
            let _ = (Value::None, KeyValueResponse::Exists { is_present: true });
            check_rust_bytes(&mut cx, &reg, ty, &bytes);
            cx.report.eval();
            cx.report.count("responses_offered_to_bridge", 1);
            match bridge.handle_response(id, &bytes) {
                Ok(out) => {
                    if let Err(e) = decode_all(&reg, &req_seq, &out) {
                        cx.violation("Request", "effect-batch-from-the-bridge-does-not-decode-under-the-schema", json!({"error": e.0}));
                    }
                }
                Err(e) => cx.violation(ty, "bridge-rejects-a-response-rust-serialised", json!({"error": e.to_string()})),
            }
        }
    }
    // long messages in both directions (64 KiB .. 2 MiB): long sequences are values like any other
    {
        use crux_http::protocol::{HttpHeader, HttpResponse, HttpResult};
        // a bridge of its own, so that the long log entries do not slow the other round trips down
        let bridge: Bridge<A> = Bridge::new(Core::new());
        for len in [65_535usize, 65_536, 70_000, 300_000, 1 << 20, 2 << 20] {
            let big = Outcome::Kv(KvOut::Data(Some(ByteBuf(rng.bytes(len)))));
            let ev = Event::Got(big.clone());
            let bytes = ser(&ev);
            check_rust_bytes(&mut cx, &reg, "Event", &bytes);
            cx.report.eval();
            cx.report.count("long_messages_offered_to_bridge", 1);
            cx.report.max("max_message_len", bytes.len() as u64);
            match bridge.process_event(&bytes) {
                Ok(_) => {
                    let view = bridge.view().expect("view serialises");
                    match decode_all_named(&reg, "ViewModel", &view) {
                        Ok(_) => cx.report.nontrivial(fnv64(&bytes[..64]) ^ len as u64),
                        Err(e) => cx.violation("ViewModel", "view-bytes-do-not-decode-under-the-schema", json!({"error": e.0, "len": len})),
                    }
                }
                Err(e) => cx.violation("Event", "bridge-rejects-a-long-schema-valid-event", json!({"error": e.to_string(), "len": len})),
            }
            // and a long response: an http request answered with a body of that size
            let job = Job::Http(
                Api::Command,
                HttpJob {
                    id: 77,
                    method: "GET".into(),
                    url: "https://example.com/big".into(),
                    headers: vec![],
                    content_type: None,
                    content_type_after_body: false,
                    body: BodyJob::Bytes(ByteBuf(rng.bytes(len))),
                    query: None,
                    expect: ExpectJob::Bytes,
                    client_mw: vec![],
                    request_mw: vec![],
                    send_async: false,
                },
            );
            let out = match bridge.process_event(&ser(&Event::Do(job))) {
                Ok(o) => o,
                Err(e) => {
                    cx.violation("Event", "bridge-rejects-a-long-schema-valid-event", json!({"error": e.to_string(), "len": len}));
                    continue;
                }
            };
            let id = match decode_all(&reg, &req_seq, &out) {
                Ok(V::Seq(reqs)) => match reqs.first() {
                    Some(V::Tuple(f)) => match f.first() {
                        Some(V::U(id, _)) => *id as u32,
                        _ => continue,
                    },
                    _ => continue,
                },
                Ok(_) => continue,
                Err(e) => {
                    cx.violation("Request", "effect-batch-from-the-bridge-does-not-decode-under-the-schema", json!({"error": e.0, "len": len}));
                    continue;
                }
            };
            let resp = ser(&HttpResult::Ok(HttpResponse {
                status: 200,
                headers: vec![HttpHeader {
                    name: "x-len".into(),
                    value: len.to_string(),
                }],
                body: rng.bytes(len),
            }));
            check_rust_bytes(&mut cx, &reg, "HttpResult", &resp);
            cx.report.count("long_messages_offered_to_bridge", 1);
            if let Err(e) = bridge.handle_response(id, &resp) {
                cx.violation("HttpResult", "bridge-rejects-a-long-schema-valid-response", json!({"error": e.to_string(), "len": len}));
            }
        }
    }
    // events from the schema: Got(outcome) is logged and comes back in the view
    {
        let mut rng2 = Rng::derive(rng.next_u64(), 3, 4);
        let mut gen = ValueGen::new(&reg, &mut rng2);
        let n = n_values.min(400);
        for _ in 0..n {
            let outcome = gen.named("Outcome", 1);
            // Event::Got = variant 1
            let ev = V::Variant(1, Box::new(outcome.clone()));
            let mut bytes = vec![];
            encode(&ev, &mut bytes);
            cx.report.eval();
            cx.report.count("schema_events_offered_to_bridge", 1);
            match bridge.process_event(&bytes) {
                Ok(_) => {}
                Err(e) => {
                    cx.violation("Event", "bridge-rejects-a-schema-valid-event", json!({"error": e.to_string(), "bytes": hex(&bytes)}));
                    continue;
                }
            }
            let view = bridge.view().expect("view serialises");
            match decode_all_named(&reg, "ViewModel", &view) {
                Ok(V::Tuple(fields)) => {
                    // ViewModel { log: Vec<Outcome> }: the last entry is what we sent
                    if let Some(V::Seq(log)) = fields.first() {
                        if log.last() != Some(&outcome) {
                            cx.violation("ViewModel", "event-sent-per-schema-comes-back-changed-in-the-view", json!({"sent": format!("{outcome:?}").chars().take(400).collect::<String>()}));
                        } else {
                            cx.report.nontrivial(fnv64(&bytes));
                            cx.report.count("view_round_trips", 1);
                        }
                    }
                }
                Ok(_) => cx.violation("ViewModel", "view-has-unexpected-shape", json!({})),
                Err(e) => cx.violation("ViewModel", "view-bytes-do-not-decode-under-the-schema", json!({"error": e.0})),
            }
        }
    }
}

fn main() {
    let args = Args::parse();
    if args.prop == "noop" {
        return;
    }
    vcommon::install_panic_hook();
    if let Some(parent) = args.out.as_deref().and_then(|o| std::path::Path::new(o).parent()) {
        let _ = SCRATCH.set(parent.to_path_buf());
    }
    let report = Arc::new(Mutex::new(Report::new(&args.prop)));
    let wd = Watchdog::start(report.clone(), args.out.clone(), Duration::from_secs(300));
    let mut rng = Rng::new(args.worker_seed());
    let n_values = args.share(4 * 150, 16 * 20_000) ;
    wd.begin(|| json!({"lane": "wirelab", "note": "whole run"}).to_string());
    {
        let mut r = report.lock().unwrap();
        let res = vcommon::trap(|| {
            run_flavour::<AppD>(&args, &mut r, true, &mut rng, n_values);
            run_flavour::<AppM>(&args, &mut r, false, &mut rng, n_values);
        });
        if let Err(p) = res {
            r.violation(
                &format!("panic/{}", vcommon::panic_site(&p)),
                &format!("panic in the wire checks: {p}"),
                json!({"lane": "wirelab", "panic": p}),
            );
        }
    }
    wd.end();
    report.lock().unwrap().finish(&args);
}
