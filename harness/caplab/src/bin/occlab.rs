//! C13: finished work is released. Repeated patterns over K cycles; occupancy of the bridge
//! registry, the core's executor, a command's task slab and the cleared-timer set is read
//! through the crux_verif hooks at cycles 1, K/2 and K and must not grow; held values must be
//! dropped when their task ends.

use std::sync::{Arc, Mutex};
use std::time::Duration;

use caplab::app::*;
use caplab::drive::*;
use cmdlab::ast::{Action, Chain, Cmd, Head, Instr, Script};
use cmdlab::hosts::{BridgeHost, CoreHost, Direct, Host, Wire};
use cmdlab::ops::{self, AppM as LabAppM};
use crux_http::protocol::{HttpResponse, HttpResult};
use crux_kv::{value::Value, KeyValueResponse, KeyValueResult};
use crux_time::{TimeRequest, TimeResponse};
use serde_json::json;
use vcommon::{Args, Report, Watchdog};

// ---- counting allocator: live allocations, independent of what the hooks can see ------------------
struct Counting;
static LIVE_ALLOCS: std::sync::atomic::AtomicUsize = std::sync::atomic::AtomicUsize::new(0);
static LIVE_BYTES: std::sync::atomic::AtomicUsize = std::sync::atomic::AtomicUsize::new(0);

unsafe impl std::alloc::GlobalAlloc for Counting {
    unsafe fn alloc(&self, l: std::alloc::Layout) -> *mut u8 {
        let p = std::alloc::System.alloc(l);
        if !p.is_null() {
            LIVE_ALLOCS.fetch_add(1, std::sync::atomic::Ordering::Relaxed);
            LIVE_BYTES.fetch_add(l.size(), std::sync::atomic::Ordering::Relaxed);
        }
        p
    }
    unsafe fn dealloc(&self, p: *mut u8, l: std::alloc::Layout) {
        LIVE_ALLOCS.fetch_sub(1, std::sync::atomic::Ordering::Relaxed);
        LIVE_BYTES.fetch_sub(l.size(), std::sync::atomic::Ordering::Relaxed);
        std::alloc::System.dealloc(p, l)
    }
    unsafe fn realloc(&self, p: *mut u8, l: std::alloc::Layout, n: usize) -> *mut u8 {
        let q = std::alloc::System.realloc(p, l, n);
        if !q.is_null() {
            if n >= l.size() {
                LIVE_BYTES.fetch_add(n - l.size(), std::sync::atomic::Ordering::Relaxed);
            } else {
                LIVE_BYTES.fetch_sub(l.size() - n, std::sync::atomic::Ordering::Relaxed);
            }
        }
        q
    }
}

#[global_allocator]
static ALLOC: Counting = Counting;

/// (live allocations, live bytes) at the sample points of the pattern that is running
static HEAP: Mutex<Vec<(usize, usize)>> = Mutex::new(Vec::new());

fn note_heap() {
    let v = (LIVE_ALLOCS.load(std::sync::atomic::Ordering::Relaxed), LIVE_BYTES.load(std::sync::atomic::Ordering::Relaxed));
    let mut h = HEAP.lock().unwrap();
    if h.capacity() < 8 {
        h.reserve(8);
    }
    h.push(v);
}

#[derive(Clone, Copy, Debug, PartialEq, Eq, Default)]
struct Occ {
    registry: usize,
    registry_never: usize,
    registry_many: usize,
    executor_tasks: usize,
    cleared_timers: usize,
}

fn occ_bridge<A>(b: &BridgeShell<A>) -> Occ
where
    A: crux_core::App<Event = Event, ViewModel = ViewModel>,
    A::Effect: CapEffect,
    A::Capabilities: crux_core::WithContext<Event, A::Effect>,
{
    let reg = b.registry();
    Occ {
        registry: reg.len(),
        registry_never: reg.iter().filter(|(_, k)| *k == crux_core::verif::RegistryKind::Never).count(),
        registry_many: reg.iter().filter(|(_, k)| *k == crux_core::verif::RegistryKind::Many).count(),
        executor_tasks: b.executor_stats().live_tasks,
        cleared_timers: crux_time::verif_cleared_timer_ids_len(),
    }
}

struct Pattern {
    name: &'static str,
    /// signature of the listed finding this pattern is known to show, per quantity
    known: &'static [(&'static str, &'static str)],
}

fn judge(r: &mut Report, p: &Pattern, k: u64, at1: Occ, half: Occ, full: Occ, extra: serde_json::Value) {
    r.eval();
    r.count("patterns_run", 1);
    r.count("cycles_run", k);
    r.set("patterns", p.name);
    let fields: [(&str, usize, usize, usize); 5] = [
        ("registry", at1.registry, half.registry, full.registry),
        ("registry-never", at1.registry_never, half.registry_never, full.registry_never),
        ("registry-many", at1.registry_many, half.registry_many, full.registry_many),
        ("executor-tasks", at1.executor_tasks, half.executor_tasks, full.executor_tasks),
        ("cleared-timers", at1.cleared_timers, half.cleared_timers, full.cleared_timers),
    ];
    let mut clean = true;
    for (q, a, h, f) in fields {
        r.count("occupancy_samples", 3);
        // nothing is outstanding at a sample point: occupancy may not depend on the history length
        if f > h || h > a + 2 {
            clean = false;
            let known = p.known.iter().find(|(quantity, _)| *quantity == q).map(|(_, s)| *s);
            // `registry` as a whole follows its parts: only report it when no part explains it
            if q == "registry" && (full.registry_never > half.registry_never || full.registry_many > half.registry_many) {
                continue;
            }
            let sig = known.map(|s| s.to_string()).unwrap_or_else(|| format!("growth/{}/{q}", p.name));
            r.violation(
                &sig,
                &format!("{q} grows with the length of the history in pattern `{}`: {a} after 1 cycle, {h} after {} cycles, {f} after {k} cycles, with nothing outstanding", p.name, k / 2),
                json!({"lane": "occlab", "pattern": p.name, "quantity": q, "cycles": k, "samples": [a, h, f], "extra": extra}),
            );
        }
    }
    // the allocator's view: with nothing outstanding the number of live allocations may not depend
    // on the length of the history either (this sees what no hook shows: reference cycles, values
    // kept by a callback, forgotten boxes). Patterns with a listed finding grow by that finding.
    let heap: Vec<(usize, usize)> = HEAP.lock().unwrap().drain(..).collect();
    if heap.len() == 3 {
        r.count("heap_samples", 3);
        r.max("max_live_allocations_at_a_sample_point", heap[2].0 as u64);
        let (h_allocs, f_allocs) = (heap[1].0, heap[2].0);
        let cycles = (k - k / 2) as usize;
        // one leaked allocation in every eighth cycle is well above the noise of amortised growth
        if clean && p.known.is_empty() && f_allocs > h_allocs + 64 + cycles / 8 {
            clean = false;
            r.violation(
                &format!("growth/{}/live-allocations", p.name),
                &format!("live heap allocations grow with the length of the history in pattern `{}`: {} after {} cycles, {} after {k} cycles ({} -> {} bytes), with nothing outstanding and no growth in any hooked structure", p.name, h_allocs, k / 2, f_allocs, heap[1].1, heap[2].1),
                json!({"lane": "occlab", "pattern": p.name, "quantity": "live-allocations", "cycles": k, "samples": heap}),
            );
        }
    }
    if clean {
        r.nontrivial(vcommon::fnv64(p.name.as_bytes()) ^ k);
    }
    r.sample(|| json!({"pattern": p.name, "cycles": k, "occupancy": {"after_1": format!("{at1:?}"), "after_half": format!("{half:?}"), "after_all": format!("{full:?}")}}));
}

fn kv_ok(op: &crux_kv::KeyValueOperation) -> Resp {
    use crux_kv::KeyValueOperation as O;
    Resp::Kv(KeyValueResult::Ok {
        response: match op {
            O::Get { .. } => KeyValueResponse::Get { value: Value::None },
            O::Set { .. } => KeyValueResponse::Set { previous: Value::None },
            O::Delete { .. } => KeyValueResponse::Delete { previous: Value::None },
            O::Exists { .. } => KeyValueResponse::Exists { is_present: true },
            O::ListKeys { .. } => KeyValueResponse::ListKeys {
                keys: vec![],
                next_cursor: 0,
            },
        },
    })
}

/// one full cycle of a job on a bridge shell: event, answer everything, no request left behind
fn cycle<A>(b: &mut BridgeShell<A>, job: &Job) -> Result<(), String>
where
    A: crux_core::App<Event = Event, ViewModel = ViewModel>,
    A::Effect: CapEffect,
    A::Capabilities: crux_core::WithContext<Event, A::Effect>,
{
    let mut queue = b.send(job)?;
    while let Some((h, op)) = queue.pop() {
        let resp = match op {
            Op::Kv(o) => kv_ok(&o),
            Op::Http(_) => Resp::Http(HttpResult::Ok(HttpResponse {
                status: 200,
                headers: vec![],
                body: b"ok".to_vec(),
            })),
            Op::Platform(_) => Resp::Platform(crux_platform::PlatformResponse("x".into())),
            Op::Time(TimeRequest::Now) => Resp::Time(TimeResponse::Now {
                instant: crux_time::Instant::new(1, 2),
            }),
            Op::Time(TimeRequest::NotifyAfter { id, .. }) => Resp::Time(TimeResponse::DurationElapsed { id }),
            Op::Time(TimeRequest::NotifyAt { id, .. }) => Resp::Time(TimeResponse::InstantArrived { id }),
            Op::Time(TimeRequest::Clear { .. }) | Op::Render(_) => continue, // notifications
        };
        queue.extend(b.respond(h, resp)?);
    }
    Ok(())
}

fn bridge_pattern<A>(r: &Arc<Mutex<Report>>, wd: &Watchdog, p: Pattern, k: u64, json_wire: bool, mut step: impl FnMut(&mut BridgeShell<A>, u64) -> Result<(), String>)
where
    A: crux_core::App<Event = Event, ViewModel = ViewModel>,
    A::Effect: CapEffect,
    A::Capabilities: crux_core::WithContext<Event, A::Effect>,
{
    wd.begin(|| json!({"lane": "occlab", "pattern": p.name, "cycles": k}).to_string());
    let res = vcommon::trap(|| {
        let mut b = BridgeShell::<A>::new(json_wire, "bridge");
        let mut samples = Vec::with_capacity(4);
        HEAP.lock().unwrap().clear();
        for i in 1..=k {
            step(&mut b, i)?;
            if i == 1 || i == k / 2 || i == k {
                note_heap();
                samples.push(occ_bridge(&b));
            }
        }
        Ok::<_, String>(samples)
    });
    wd.end();
    let mut r = r.lock().unwrap();
    match res {
        Ok(Ok(s)) if s.len() == 3 => judge(&mut r, &p, k, s[0], s[1], s[2], json!({"wire": if json_wire { "json" } else { "bincode" }})),
        Ok(Ok(_)) => r.inconclusive(format!("pattern {} took too few cycles", p.name)),
        Ok(Err(e)) => r.violation(&format!("pattern-failed/{}", p.name), &e, json!({"lane": "occlab", "pattern": p.name})),
        Err(pn) => r.violation(&format!("panic/{}", vcommon::panic_site(&pn)), &format!("panic in pattern {}: {pn}", p.name), json!({"lane": "occlab", "pattern": p.name})),
    }
}

fn main() {
    let args = Args::parse();
    if args.prop == "noop" {
        return;
    }
    vcommon::install_panic_hook();
    let report = Arc::new(Mutex::new(Report::new(&args.prop)));
    let wd = Watchdog::start(report.clone(), args.out.clone(), Duration::from_secs(600));
    let k = args.extra_u64("cycles", if args.thorough() { 200_000 } else { 2_000 });
    caplab::app::KEEP_LOG.store(false, std::sync::atomic::Ordering::SeqCst);
    ops::KEEP_LOG.store(false, std::sync::atomic::Ordering::SeqCst);
    // workers split the patterns
    let mut idx = 0u64;
    let mut mine = || {
        idx += 1;
        (idx - 1) % args.workers == args.worker
    };
    let r = &report;

    // ---- request / response cycles: everything is answered, nothing may stay ---------------------
    for (api, name) in [(Api::Command, "kv-cycle(command api)"), (Api::Legacy, "kv-cycle(capability api)")] {
        if mine() {
            bridge_pattern::<AppD>(r, &wd, Pattern { name, known: &[] }, k, false, |b, i| {
                cycle(b, &Job::Kv(api, KvJob::Get { key: format!("k{i}") }))
            });
        }
    }
    if mine() {
        bridge_pattern::<AppM>(r, &wd, Pattern { name: "kv-cycle(attribute macro, json)", known: &[] }, k, true, |b, i| {
            cycle(b, &Job::Kv(Api::Command, KvJob::Exists { key: format!("k{i}") }))
        });
    }
    for (api, name) in [(Api::Command, "http-cycle(command api)"), (Api::Legacy, "http-cycle(capability api)")] {
        if mine() {
            bridge_pattern::<AppD>(r, &wd, Pattern { name, known: &[] }, k, false, |b, i| {
                cycle(
                    b,
                    &Job::Http(
                        api,
                        HttpJob {
                            id: i as u32,
                            method: "GET".into(),
                            url: "https://example.com/".into(),
                            headers: vec![],
                            content_type: None,
                            content_type_after_body: false,
                            body: BodyJob::NoBody,
                            query: None,
                            expect: ExpectJob::Bytes,
                            client_mw: vec![],
                            request_mw: vec![],
                            send_async: false,
                        },
                    ),
                )
            });
        }
    }
    // ---- a malformed response uses a one-shot request up: the bridge must forget it ---------------
    if mine() {
        bridge_pattern::<AppD>(r, &wd, Pattern { name: "one-shot-answered-with-garbage", known: &[] }, k, false, |b, i| {
            let reqs = b.send(&Job::Kv(Api::Command, KvJob::Get { key: format!("k{i}") }))?;
            for (h, _) in reqs {
                // not a KeyValueResult
                let bridge = b.bincode.as_ref().unwrap();
                let _ = bridge.handle_response(h as u32, &[0xff, 0xff, 0xff, 0xff, 0xff]);
            }
            Ok(())
        });
    }
    // ---- timers ---------------------------------------------------------------------------------
    for (api, name) in [(Api::Command, "timer-set-fire(command api)"), (Api::Legacy, "timer-set-fire(capability api)")] {
        if mine() {
            bridge_pattern::<AppD>(r, &wd, Pattern { name, known: &[] }, k, false, |b, _| {
                cycle(b, &Job::Time(api, TimeJob::NotifyAfterNanos(5)))
            });
        }
    }
    if mine() {
        // legacy: set, clear while pending, then the shell's (late) answer lets the task observe the clear
        bridge_pattern::<AppD>(r, &wd, Pattern { name: "timer-set-clear-fire(capability api)", known: &[("registry-never", "registry/never-entry-per-notification")] }, k, false, |b, _| {
            let reqs = b.send(&Job::Time(Api::Legacy, TimeJob::NotifyAfterNanos(5)))?;
            let (h, id) = match &reqs[..] {
                [(h, Op::Time(TimeRequest::NotifyAfter { id, .. }))] => (*h, *id),
                other => return Err(format!("unexpected effects {other:?}")),
            };
            b.send(&Job::Time(Api::Legacy, TimeJob::Clear(id.0 as u64)))?;
            b.respond(h, Resp::Time(TimeResponse::DurationElapsed { id }))?;
            Ok(())
        });
    }
    if mine() {
        // legacy: the timer finishes first, the app clears it afterwards
        bridge_pattern::<AppD>(
            r,
            &wd,
            Pattern {
                name: "timer-fire-then-late-clear(capability api)",
                known: &[("cleared-timers", "cleared-timer-set/late-clear"), ("registry-never", "registry/never-entry-per-notification")],
            },
            k,
            false,
            |b, _| {
                let reqs = b.send(&Job::Time(Api::Legacy, TimeJob::NotifyAfterNanos(5)))?;
                let (h, id) = match &reqs[..] {
                    [(h, Op::Time(TimeRequest::NotifyAfter { id, .. }))] => (*h, *id),
                    other => return Err(format!("unexpected effects {other:?}")),
                };
                b.respond(h, Resp::Time(TimeResponse::DurationElapsed { id }))?;
                b.send(&Job::Time(Api::Legacy, TimeJob::Clear(id.0 as u64)))?;
                Ok(())
            },
        );
    }
    // ---- notifications -----------------------------------------------------------------------------
    for (api, name) in [(Api::Command, "render(command api)"), (Api::Legacy, "render(capability api)")] {
        if mine() {
            bridge_pattern::<AppD>(r, &wd, Pattern { name, known: &[("registry-never", "registry/never-entry-per-notification")] }, k, false, |b, _| {
                cycle(b, &Job::Render(api))
            });
        }
    }

    // a shell that acknowledges notifications: the response is refused (a notification accepts
    // none), and after that refusal the id can never be resolved again - the bridge must forget it
    for (api, name) in [(Api::Command, "render-acknowledged(command api)"), (Api::Legacy, "render-acknowledged(capability api)")] {
        if mine() {
            bridge_pattern::<AppD>(r, &wd, Pattern { name, known: &[] }, k, false, |b, _| {
                let reqs = b.send(&Job::Render(api))?;
                let bridge = b.bincode.as_ref().unwrap();
                for (h, op) in reqs {
                    if !matches!(op, Op::Render(_)) {
                        return Err(format!("unexpected effect {op:?}"));
                    }
                    if bridge.handle_response(h as u32, &[]).is_ok() {
                        return Err("a response to a notification was accepted".into());
                    }
                }
                Ok(())
            });
        }
    }

    // ---- typed core (no registry): request objects are dropped by the shell at the end of a cycle ----
    for (api, name) in [
        (Api::Legacy, "timer-set-then-clear-in-one-update(capability api, typed)"),
        (Api::Command, "timer-set-then-clear-in-one-update(command api, typed)"),
    ] {
        if mine() {
            typed_pattern(r, &wd, Pattern { name, known: &[] }, k, |sh, i| {
                // the timer future is created and then never asks the shell for anything
                let reqs = sh.send(&Job::Time(api, TimeJob::SetThenClearNanos(5 + i)))?;
                for (h, _) in reqs {
                    sh.drop_request(h);
                }
                Ok(())
            });
        }
    }
    if mine() {
        // the same pending timer cleared twice before it is next polled, then answered
        typed_pattern(r, &wd, Pattern { name: "timer-set-clear-twice-fire(capability api, typed)", known: &[] }, k, |sh, _| {
            let reqs = sh.send(&Job::Time(Api::Legacy, TimeJob::NotifyAfterNanos(5)))?;
            let (h, id) = match &reqs[..] {
                [(h, Op::Time(TimeRequest::NotifyAfter { id, .. }))] => (*h, *id),
                other => return Err(format!("unexpected effects {other:?}")),
            };
            for _ in 0..2 {
                for (ch, _) in sh.send(&Job::Time(Api::Legacy, TimeJob::Clear(id.0 as u64)))? {
                    sh.drop_request(ch);
                }
            }
            sh.respond(h, Resp::Time(TimeResponse::DurationElapsed { id }))?;
            sh.drop_request(h);
            Ok(())
        });
    }
    for (api, name) in [(Api::Legacy, "kv-cycle(capability api, typed)"), (Api::Command, "kv-cycle(command api, typed)")] {
        if mine() {
            typed_pattern(r, &wd, Pattern { name, known: &[] }, k, |sh, i| {
                let reqs = sh.send(&Job::Kv(api, KvJob::Get { key: format!("k{i}") }))?;
                for (h, op) in reqs {
                    if let Op::Kv(o) = &op {
                        sh.respond(h, kv_ok(o))?;
                    }
                    sh.drop_request(h);
                }
                Ok(())
            });
        }
    }
    for (api, name) in [(Api::Legacy, "timer-set-shell-drops-request(capability api, typed)"), (Api::Command, "timer-set-shell-drops-request(command api, typed)")] {
        if mine() {
            // (the capability API cannot cancel a task whose request the shell dropped: that one is
            // outstanding work by design, so the capability variant answers before dropping)
            typed_pattern(r, &wd, Pattern { name, known: &[] }, k, |sh, _| {
                let reqs = sh.send(&Job::Time(api, TimeJob::NotifyAfterNanos(5)))?;
                for (h, op) in reqs {
                    if api == Api::Legacy {
                        if let Op::Time(TimeRequest::NotifyAfter { id, .. }) = op {
                            sh.respond(h, Resp::Time(TimeResponse::DurationElapsed { id }))?;
                        }
                    }
                    sh.drop_request(h);
                }
                // let the core notice the dropped request
                sh.send(&Job::Render(Api::Command)).map(|reqs| for (h, _) in reqs { sh.drop_request(h); })?;
                Ok(())
            });
        }
    }
    // ---- request futures that are created and never polled (the branch not taken) ----------------------
    for (which, name) in [
        (0u8, "request-future-never-polled(command api)"),
        (1, "request-future-never-polled(capability api)"),
        (2, "request-future-never-polled(capability future in a command task)"),
    ] {
        if mine() {
            abandon_pattern(r, &wd, k, which, name);
        }
    }

    // ---- streams, cancellation and typed hosts: the command lab app ------------------------------
    if mine() {
        stream_pattern(r, &wd, k, true);
    }
    if mine() {
        stream_pattern(r, &wd, k, false);
    }
    if mine() {
        core_drop_pattern(r, &wd, k);
    }
    if mine() {
        direct_spawn_pattern(r, &wd, k);
    }
    report.lock().unwrap().finish(&args);
}

fn typed_pattern(r: &Arc<Mutex<Report>>, wd: &Watchdog, p: Pattern, k: u64, mut step: impl FnMut(&mut TypedShell<AppD>, u64) -> Result<(), String>) {
    wd.begin(|| json!({"lane": "occlab", "pattern": p.name, "cycles": k}).to_string());
    let res = vcommon::trap(|| {
        let mut sh = TypedShell::<AppD>::new("Core(derive)");
        let mut samples = Vec::with_capacity(4);
        HEAP.lock().unwrap().clear();
        for i in 1..=k {
            step(&mut sh, i)?;
            if i == 1 || i == k / 2 || i == k {
                note_heap();
                samples.push(Occ {
                    executor_tasks: sh.core.verif_executor_stats().live_tasks,
                    cleared_timers: crux_time::verif_cleared_timer_ids_len(),
                    ..Occ::default()
                });
            }
        }
        Ok::<_, String>(samples)
    });
    wd.end();
    let mut r = r.lock().unwrap();
    match res {
        Ok(Ok(s)) if s.len() == 3 => judge(&mut r, &p, k, s[0], s[1], s[2], json!({"host": "typed core"})),
        Ok(Ok(_)) => r.inconclusive(format!("pattern {} took too few cycles", p.name)),
        Ok(Err(e)) => r.violation(&format!("pattern-failed/{}", p.name), &e, json!({"lane": "occlab", "pattern": p.name})),
        Err(pn) => r.violation(&format!("panic/{}", vcommon::panic_site(&pn)), &format!("panic in pattern {}: {pn}", p.name), json!({"lane": "occlab", "pattern": p.name})),
    }
}

/// a task creates a request future, never polls it (another branch was taken), emits and ends
fn abandon_pattern(r: &Arc<Mutex<Report>>, wd: &Watchdog, k: u64, which: u8, name: &'static str) {
    wd.begin(|| json!({"lane": "occlab", "pattern": name}).to_string());
    let res = vcommon::trap(|| {
        ops::reset_registries();
        let mut core = match which {
            0 => CoreHost::<ops::AppD>::new(false),
            1 => CoreHost::<ops::AppD>::new(true),
            _ => CoreHost::<ops::AppD>::mixed(),
        };
        let mut samples = Vec::with_capacity(4);
        HEAP.lock().unwrap().clear();
        for i in 1..=k {
            let site = (i * 4) as u32;
            let program = Cmd::Async(Script {
                instrs: vec![
                    Instr::Abandon { site },
                    Instr::Req { site: site + 1, arg: None },
                    Instr::Abandon { site: site + 2 },
                    Instr::Emit { tag: site, reg: Some(0) },
                ],
            });
            core.start(&program);
            core.act(&Action::Resolve { site: site + 1, arg: 0, val: i });
            core.table.clear();
            if i == 1 || i == k / 2 || i == k {
                note_heap();
                samples.push(Occ {
                    executor_tasks: core.core.verif_executor_stats().live_tasks,
                    ..Occ::default()
                });
            }
        }
        Ok::<_, String>(samples)
    });
    wd.end();
    let mut rr = r.lock().unwrap();
    let p = Pattern { name, known: &[] };
    match res {
        Ok(Ok(s)) if s.len() == 3 => judge(&mut rr, &p, k, s[0], s[1], s[2], json!({})),
        Ok(Ok(_)) => rr.inconclusive("pattern took too few cycles"),
        Ok(Err(e)) => rr.violation(&format!("pattern-failed/{name}"), &e, json!({"lane": "occlab", "pattern": name})),
        Err(pn) => rr.violation(&format!("panic/{}", vcommon::panic_site(&pn)), &format!("panic in pattern {name}: {pn}"), json!({"lane": "occlab", "pattern": name})),
    }
}

/// subscribe, one item, consumer ends (the chain's inner request is dropped so the task is evicted,
/// or: the bridge cannot drop, so the consumer is a script that reads one item and finishes)
fn stream_pattern(r: &Arc<Mutex<Report>>, wd: &Watchdog, k: u64, over_bridge: bool) {
    let name = if over_bridge { "subscribe-one-item-consumer-ends(bridge)" } else { "subscribe-one-item-consumer-ends(core)" };
    let known: &[(&str, &str)] = if over_bridge { &[("registry-many", "registry/finished-stream-entry-kept")] } else { &[] };
    wd.begin(|| json!({"lane": "occlab", "pattern": name}).to_string());
    let res = vcommon::trap(|| {
        ops::reset_registries();
        let mut samples = Vec::with_capacity(4);
        HEAP.lock().unwrap().clear();
        let mut bridge = BridgeHost::<LabAppM>::new(Wire::Bincode);
        let mut core = CoreHost::<LabAppM>::new(false);
        for i in 1..=k {
            let site = (i * 4) as u32;
            // a task that opens a stream, takes one item, emits it and ends
            let program = Cmd::Async(Script {
                instrs: vec![
                    Instr::Open { site },
                    Instr::Next { stream: 0 },
                    Instr::Emit { tag: site, reg: Some(0) },
                ],
            });
            if over_bridge {
                bridge.start(&program);
                bridge.act(&Action::Resolve { site, arg: 0, val: i });
                // a further item is rejected: the consumer has ended
                let o = bridge.act(&Action::Resolve { site, arg: 0, val: i + 1 });
                if o.resolve_ok == Some(true) {
                    return Err("an item for a finished stream was accepted".to_string());
                }
                bridge.ids.clear();
            } else {
                core.start(&program);
                core.act(&Action::Resolve { site, arg: 0, val: i });
                core.act(&Action::DropReq { site, arg: 0 });
            }
            if i == 1 || i == k / 2 || i == k {
                let occ = if over_bridge {
                    let reg = bridge.registry();
                    Occ {
                        registry: reg.len(),
                        registry_never: reg.iter().filter(|(_, k)| *k == crux_core::verif::RegistryKind::Never).count(),
                        registry_many: reg.iter().filter(|(_, k)| *k == crux_core::verif::RegistryKind::Many).count(),
                        executor_tasks: 0,
                        cleared_timers: 0,
                    }
                } else {
                    Occ {
                        executor_tasks: core.core.verif_executor_stats().live_tasks,
                        ..Occ::default()
                    }
                };
                note_heap();
                samples.push(occ);
            }
        }
        Ok(samples)
    });
    wd.end();
    let mut rr = r.lock().unwrap();
    let p = Pattern { name, known };
    match res {
        Ok(Ok(s)) if s.len() == 3 => judge(&mut rr, &p, k, s[0], s[1], s[2], json!({})),
        Ok(Ok(_)) => rr.inconclusive("stream pattern took too few cycles"),
        Ok(Err(e)) => rr.violation(&format!("pattern-failed/{name}"), &e, json!({"lane": "occlab", "pattern": name})),
        Err(pn) => rr.violation(&format!("panic/{}", vcommon::panic_site(&pn)), &format!("panic in pattern {name}: {pn}"), json!({"lane": "occlab", "pattern": name})),
    }
}

/// typed core, command API: two sibling tasks per cycle; the shell drops one request and resolves
/// the other *before* the core runs again, and variations; live tasks must return to zero
fn core_drop_pattern(r: &Arc<Mutex<Report>>, wd: &Watchdog, k: u64) {
    let name = "sibling-tasks-drop-one-resolve-other(core)";
    wd.begin(|| json!({"lane": "occlab", "pattern": name}).to_string());
    let res = vcommon::trap(|| {
        ops::reset_registries();
        let mut core = CoreHost::<LabAppM>::new(false);
        let mut samples = Vec::with_capacity(4);
        HEAP.lock().unwrap().clear();
        for i in 1..=k {
            let a = (i * 4) as u32;
            let b = a + 1;
            // root task spawns a sibling waiting on request `b` and itself waits on request `a`
            let program = Cmd::Async(Script {
                instrs: vec![
                    Instr::Spawn {
                        script: Script {
                            instrs: vec![Instr::Req { site: b, arg: None }],
                        },
                    },
                    Instr::Req { site: a, arg: None },
                ],
            });
            core.start(&program);
            match i % 3 {
                0 => {
                    // drop B, then resolve A, and only then let the core run (one call)
                    drop(core.table.remove(&(b, 0)));
                    core.act(&Action::Resolve { site: a, arg: 0, val: i });
                }
                1 => {
                    core.act(&Action::Resolve { site: a, arg: 0, val: i });
                    core.act(&Action::DropReq { site: b, arg: 0 });
                }
                _ => {
                    drop(core.table.remove(&(a, 0)));
                    drop(core.table.remove(&(b, 0)));
                    core.act(&Action::Noop);
                }
            }
            core.table.clear();
            if i == 1 || i == k / 2 || i == k {
                note_heap();
                samples.push(Occ {
                    executor_tasks: core.core.verif_executor_stats().live_tasks,
                    ..Occ::default()
                });
            }
        }
        Ok::<_, String>(samples)
    });
    wd.end();
    let mut rr = r.lock().unwrap();
    let p = Pattern { name, known: &[] };
    match res {
        Ok(Ok(s)) if s.len() == 3 => judge(&mut rr, &p, k, s[0], s[1], s[2], json!({})),
        Ok(Ok(_)) => rr.inconclusive("pattern took too few cycles"),
        Ok(Err(e)) => rr.violation(&format!("pattern-failed/{name}"), &e, json!({"lane": "occlab", "pattern": name})),
        Err(pn) => rr.violation(&format!("panic/{}", vcommon::panic_site(&pn)), &format!("panic in pattern {name}: {pn}"), json!({"lane": "occlab", "pattern": name})),
    }
}

/// one long-lived command that keeps getting new chains from outside (`and`): finished and
/// cancelled tasks must leave its slab
fn direct_spawn_pattern(r: &Arc<Mutex<Report>>, wd: &Watchdog, k: u64) {
    let name = "long-lived-command-extended-repeatedly(direct)";
    wd.begin(|| json!({"lane": "occlab", "pattern": name}).to_string());
    let res = vcommon::trap(|| {
        ops::reset_registries();
        let mut host = Direct::<cmdlab::ops::m::Effect>::new();
        host.start(&Cmd::Done);
        let mut samples = Vec::with_capacity(4);
        HEAP.lock().unwrap().clear();
        for i in 1..=k {
            let site = (i * 4) as u32;
            let chain = Cmd::Chain(
                Chain {
                    head: Head::Request(site),
                    stages: vec![],
                },
                site,
            );
            host.act(&Action::Extend(Box::new(chain)));
            let o = if i % 2 == 0 {
                host.act(&Action::Resolve { site, arg: 0, val: i })
            } else {
                host.act(&Action::DropReq { site, arg: 0 })
            };
            if i == 1 || i == k / 2 || i == k {
                note_heap();
                samples.push(Occ {
                    executor_tasks: o.live_tasks.unwrap_or(0),
                    ..Occ::default()
                });
            }
            if i % 2 == 0 {
                host.act(&Action::DropReq { site, arg: 0 });
            }
        }
        Ok::<_, String>(samples)
    });
    wd.end();
    let mut rr = r.lock().unwrap();
    let p = Pattern { name, known: &[] };
    match res {
        Ok(Ok(s)) if s.len() == 3 => judge(&mut rr, &p, k, s[0], s[1], s[2], json!({})),
        Ok(Ok(_)) => rr.inconclusive("pattern took too few cycles"),
        Ok(Err(e)) => rr.violation(&format!("pattern-failed/{name}"), &e, json!({"lane": "occlab", "pattern": name})),
        Err(pn) => rr.violation(&format!("panic/{}", vcommon::panic_site(&pn)), &format!("panic in pattern {name}: {pn}"), json!({"lane": "occlab", "pattern": name})),
    }
}
