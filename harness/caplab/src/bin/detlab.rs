//! C11: the core is a deterministic function of its input history (replay twins in one process
//! and across processes, byte equality of serialized effect batches and views up to the
//! numbering of fresh timer ids) and API values compare equal exactly when their contents do.

use std::collections::{BTreeMap, HashMap};
use std::sync::{Arc, Mutex};
use std::time::Duration;

use bincode::Options;
use caplab::app::*;
use caplab::drive::{bopts, Op};
use cmdlab::gen::{Gen, GenCfg};
use cmdlab::hosts::{BridgeHost, CoreHost, Host, Wire};
use cmdlab::lab::{run_case, HostSlot, RunCfg};
use cmdlab::model::Mode;
use crux_core::bridge::Bridge;
use crux_core::Core;
use crux_http::protocol::{HttpHeader, HttpResponse, HttpResult};
use crux_http::testing::ResponseBuilder;
use crux_kv::{value::Value, KeyValueOperation, KeyValueResponse, KeyValueResult};
use crux_time::{TimeRequest, TimeResponse, TimerId};
use serde::{Deserialize, Serialize};
use serde_json::json;
use vcommon::{fnv64, hash_mix, Args, Report, Rng, Watchdog};

#[derive(Deserialize, Serialize, Debug, Clone)]
struct WireReq {
    id: u32,
    effect: Op,
}

fn ser<T: Serialize>(v: &T) -> Vec<u8> {
    bopts().serialize(v).unwrap()
}

fn token(rng: &mut Rng) -> String {
    let n = rng.range(1, 8) as usize;
    (0..n).map(|_| (b'a' + rng.below(26) as u8) as char).collect()
}

fn gen_job(rng: &mut Rng, id: u32) -> Job {
    let api = if rng.chance(1, 2) { Api::Legacy } else { Api::Command };
    match rng.below(10) {
        0..=3 => {
            let mut headers = vec![];
            // (one request in five carries dozens of header lines: sorting and hashing behave
            // differently above a few entries)
            let n_headers = if rng.chance(1, 5) { rng.range(12, 48) } else { rng.below(7) };
            for _ in 0..n_headers {
                let nv = if rng.chance(1, 3) { rng.range(2, 5) } else { 1 };
                headers.push(HeaderJob {
                    name: format!("x-{}", token(rng)),
                    values: (0..nv).map(|_| token(rng)).collect(),
                });
            }
            Job::Http(
                api,
                HttpJob {
                    id,
                    method: (*rng.pick(&["GET", "POST", "PUT"])).into(),
                    url: format!("https://example.com/{}/{}?a={}", token(rng), token(rng), rng.below(100)),
                    headers,
                    content_type: None,
                    content_type_after_body: false,
                    body: match rng.below(3) {
                        0 => BodyJob::NoBody,
                        1 => BodyJob::Text(token(rng)),
                        _ => BodyJob::Json(format!("{{\"{}\":{},\"{}\":\"{}\"}}", token(rng), rng.below(99), token(rng), token(rng))),
                    },
                    query: None,
                    expect: *rng.pick(&[ExpectJob::Bytes, ExpectJob::Text]),
                    client_mw: vec![],
                    request_mw: vec![],
                    send_async: false,
                },
            )
        }
        4 => Job::Kv(api, KvJob::Get { key: token(rng) }),
        5 => Job::Kv(
            api,
            KvJob::Set {
                key: token(rng),
                value: ByteBuf(rng.bytes(12)),
            },
        ),
        6 => match rng.below(4) {
            // the capability API's clear works through a process-wide set of ids: clears of the
            // timer started last (pending or already finished) and start-then-clear in one update
            0 => match *caplab::app::LAST_TIMER_ID.lock().unwrap() {
                Some(id) => Job::Time(Api::Legacy, TimeJob::Clear(id)),
                None => Job::Time(api, TimeJob::Now),
            },
            1 => Job::Time(api, TimeJob::SetThenClearNanos(rng.below(1 << 20))),
            _ => Job::Time(api, TimeJob::NotifyAfterNanos(rng.below(1 << 40))),
        },
        7 => Job::Time(api, TimeJob::Now),
        8 => Job::Render(api),
        _ => Job::Batch((0..rng.range(2, 4)).map(|i| gen_job_simple(rng, id * 10 + i as u32)).collect()),
    }
}

fn gen_job_simple(rng: &mut Rng, id: u32) -> Job {
    let _ = id;
    match rng.below(4) {
        0 => Job::Kv(Api::Command, KvJob::Exists { key: token(rng) }),
        1 => Job::Render(Api::Command),
        2 => Job::Time(Api::Command, TimeJob::NotifyAtSecs(rng.below(1 << 33), 5)),
        _ => Job::Platform,
    }
}

fn answer(rng: &mut Rng, op: &Op) -> Option<Vec<u8>> {
    Some(match op {
        Op::Http(_) => ser(&HttpResult::Ok(HttpResponse {
            status: *rng.pick(&[200u16, 201, 404, 500]),
            headers: (0..rng.below(4))
                .map(|_| HttpHeader {
                    name: format!("x-{}", token(rng)),
                    value: token(rng),
                })
                .collect(),
            body: token(rng).into_bytes(),
        })),
        Op::Kv(o) => ser(&KeyValueResult::Ok {
            response: match o {
                KeyValueOperation::Get { .. } => KeyValueResponse::Get {
                    value: Value::Bytes(rng.bytes(5)),
                },
                KeyValueOperation::Set { .. } => KeyValueResponse::Set { previous: Value::None },
                KeyValueOperation::Delete { .. } => KeyValueResponse::Delete { previous: Value::None },
                KeyValueOperation::Exists { .. } => KeyValueResponse::Exists { is_present: rng.chance(1, 2) },
                KeyValueOperation::ListKeys { .. } => KeyValueResponse::ListKeys {
                    keys: vec![],
                    next_cursor: 0,
                },
            },
        }),
        Op::Platform(_) => ser(&crux_platform::PlatformResponse(token(rng))),
        Op::Time(TimeRequest::Now) => ser(&TimeResponse::Now {
            instant: crux_time::Instant::new(rng.below(1 << 33), 7),
        }),
        Op::Time(TimeRequest::NotifyAfter { id, .. }) => ser(&TimeResponse::DurationElapsed { id: *id }),
        Op::Time(TimeRequest::NotifyAt { id, .. }) => ser(&TimeResponse::InstantArrived { id: *id }),
        Op::Time(TimeRequest::Clear { .. }) | Op::Render(_) => return None,
    })
}

/// Replace fresh timer ids by their order of first appearance
struct TimerNorm {
    map: HashMap<usize, usize>,
}

impl TimerNorm {
    fn id(&mut self, id: TimerId) -> TimerId {
        let n = self.map.len() + 1;
        TimerId(*self.map.entry(id.0).or_insert(n))
    }
    fn op(&mut self, op: Op) -> Op {
        match op {
            Op::Time(TimeRequest::NotifyAfter { id, duration }) => Op::Time(TimeRequest::NotifyAfter {
                id: self.id(id),
                duration,
            }),
            Op::Time(TimeRequest::NotifyAt { id, instant }) => Op::Time(TimeRequest::NotifyAt {
                id: self.id(id),
                instant,
            }),
            Op::Time(TimeRequest::Clear { id }) => Op::Time(TimeRequest::Clear { id: self.id(id) }),
            other => other,
        }
    }
    fn outcome(&mut self, o: Outcome) -> Outcome {
        match o {
            Outcome::Time(TimeOut::Completed(id)) if id != 0 => Outcome::Time(TimeOut::Completed(self.id(TimerId(id as usize)).0 as u64)),
            Outcome::Time(TimeOut::Cleared(id)) if id != 0 => Outcome::Time(TimeOut::Cleared(self.id(TimerId(id as usize)).0 as u64)),
            other => other,
        }
    }
}

struct ThreadedBridge {
    bridge: Bridge<AppD>,
    fresh_threads: bool,
}

impl ThreadedBridge {
    fn on<T: Send>(&self, f: impl FnOnce(&Bridge<AppD>) -> T + Send) -> T {
        if self.fresh_threads {
            std::thread::scope(|s| s.spawn(|| f(&self.bridge)).join().expect("bridge call thread"))
        } else {
            f(&self.bridge)
        }
    }
    fn process_event(&self, bytes: &[u8]) -> Result<Vec<u8>, crux_core::bridge::BridgeError> {
        self.on(|b| b.process_event(bytes))
    }
    fn handle_response(&self, id: u32, bytes: &[u8]) -> Result<Vec<u8>, crux_core::bridge::BridgeError> {
        self.on(|b| b.handle_response(id, bytes))
    }
    fn view(&self) -> Result<Vec<u8>, crux_core::bridge::BridgeError> {
        self.on(|b| b.view())
    }
}

/// One replay: every output of the bridge, serialized, in order (timer ids normalised)
fn replay(hseed: u64) -> Result<Vec<Vec<u8>>, String> {
    replay_on(hseed, false)
}

/// `fresh_threads`: every call into the bridge is made from a thread of its own (a shell that
/// hands each call to a worker); the outputs may not depend on which thread called
fn replay_on(hseed: u64, fresh_threads: bool) -> Result<Vec<Vec<u8>>, String> {
    let mut rng = Rng::new(hseed);
    *caplab::app::LAST_TIMER_ID.lock().unwrap() = None;
    let bridge: Bridge<AppD> = Bridge::new(Core::new());
    let bridge = ThreadedBridge { bridge, fresh_threads };
    let mut norm = TimerNorm { map: HashMap::new() };
    let mut outputs: Vec<Vec<u8>> = vec![];
    let mut outstanding: Vec<(u32, Op)> = vec![];
    let steps = rng.range(6, 24);
    for step in 0..steps {
        let batch = if outstanding.is_empty() || rng.chance(1, 2) {
            let job = gen_job(&mut rng, step as u32);
            bridge.process_event(&ser(&Event::Do(job))).map_err(|e| e.to_string())?
        } else {
            let i = rng.usize_below(outstanding.len());
            let (id, op) = outstanding.remove(i);
            match answer(&mut rng, &op) {
                Some(bytes) => bridge.handle_response(id, &bytes).map_err(|e| e.to_string())?,
                None => continue,
            }
        };
        let reqs: Vec<WireReq> = bopts().deserialize(&batch).map_err(|e| format!("effects do not decode: {e}"))?;
        let mut normalised = vec![];
        for r in reqs {
            if answer(&mut Rng::new(1), &r.effect).is_some() {
                outstanding.push((r.id, r.effect.clone()));
            }
            normalised.push(WireReq {
                id: r.id,
                effect: norm.op(r.effect),
            });
        }
        outputs.push(ser(&normalised));
        let view: ViewModel = bopts().deserialize(&bridge.view().map_err(|e| e.to_string())?).map_err(|e| e.to_string())?;
        let view = ViewModel {
            log: view.log.into_iter().map(|o| norm.outcome(o)).collect(),
        };
        outputs.push(ser(&view));
    }
    Ok(outputs)
}

/// A history made of capability-API timers only: started, cleared while pending, answered, cleared
/// after they finished, several at once. The capability API keeps cleared ids in a process-wide
/// set, so this is where a replay could come to depend on what ran earlier in the process.
fn replay_timers(hseed: u64) -> Result<Vec<Vec<u8>>, String> {
    let mut rng = Rng::new(hseed);
    let bridge: Bridge<AppD> = Bridge::new(Core::new());
    let mut norm = TimerNorm { map: HashMap::new() };
    let mut outputs: Vec<Vec<u8>> = vec![];
    // (bridge id, timer id, cleared)
    let mut pending: Vec<(u32, TimerId, bool)> = vec![];
    let mut finished: Vec<TimerId> = vec![];
    let steps = rng.range(12, 40);
    for _ in 0..steps {
        let choice = rng.below(20);
        let batch = if pending.is_empty() || choice < 7 {
            bridge.process_event(&ser(&Event::Do(Job::Time(Api::Legacy, TimeJob::NotifyAfterNanos(rng.below(1 << 30)))))).map_err(|e| e.to_string())?
        } else if choice < 11 {
            let i = rng.usize_below(pending.len());
            pending[i].2 = true;
            bridge.process_event(&ser(&Event::Do(Job::Time(Api::Legacy, TimeJob::Clear(pending[i].1 .0 as u64))))).map_err(|e| e.to_string())?
        } else if choice < 16 || finished.is_empty() {
            let (id, tid, _) = pending.remove(rng.usize_below(pending.len()));
            finished.push(tid);
            bridge.handle_response(id, &ser(&TimeResponse::DurationElapsed { id: tid })).map_err(|e| e.to_string())?
        } else {
            let tid = finished.remove(rng.usize_below(finished.len()));
            bridge.process_event(&ser(&Event::Do(Job::Time(Api::Legacy, TimeJob::Clear(tid.0 as u64))))).map_err(|e| e.to_string())?
        };
        let reqs: Vec<WireReq> = bopts().deserialize(&batch).map_err(|e| format!("effects do not decode: {e}"))?;
        let mut normalised = vec![];
        for r in reqs {
            if let Op::Time(TimeRequest::NotifyAfter { id, .. }) = &r.effect {
                pending.push((r.id, *id, false));
            }
            normalised.push(WireReq {
                id: r.id,
                effect: norm.op(r.effect),
            });
        }
        outputs.push(ser(&normalised));
        let view: ViewModel = bopts().deserialize(&bridge.view().map_err(|e| e.to_string())?).map_err(|e| e.to_string())?;
        let view = ViewModel {
            log: view.log.into_iter().map(|o| norm.outcome(o)).collect(),
        };
        outputs.push(ser(&view));
    }
    Ok(outputs)
}

fn digests(outputs: &[Vec<u8>]) -> Vec<u64> {
    outputs.iter().map(|o| fnv64(o)).collect()
}

fn main() {
    let args = Args::parse();
    if args.prop == "noop" {
        return;
    }
    if let Some(h) = args.extra.get("child-history") {
        // child process of the cross-process comparison: print the digests of one replay
        let hseed: u64 = h.parse().unwrap();
        match replay(hseed) {
            Ok(o) => println!("{}", digests(&o).iter().map(|d| format!("{d:016x}")).collect::<Vec<_>>().join(" ")),
            Err(e) => println!("ERROR {e}"),
        }
        return;
    }
    vcommon::install_panic_hook();
    let report = Arc::new(Mutex::new(Report::new(&args.prop)));
    let wd = Watchdog::start(report.clone(), args.out.clone(), Duration::from_secs(300));
    let seed = args.worker_seed();

    // ---- A: replay twins ---------------------------------------------------------------------------
    let n_hist = args.share(400, 60_000);
    let exe = std::env::current_exe().expect("own path");
    for h in 0..n_hist {
        let hseed = hash_mix(seed, h);
        wd.begin(|| json!({"lane": "detlab", "history_seed": hseed}).to_string());
        let first = vcommon::trap(|| replay(hseed));
        let mut diffs: Vec<(usize, &'static str)> = vec![];
        let mut first_outputs = vec![];
        let replays_in_process = 8;
        match &first {
            Ok(Ok(a)) => {
                first_outputs = a.clone();
                for rep in 1..replays_in_process {
                    // every other replay makes each call from a fresh thread
                    match vcommon::trap(|| replay_on(hseed, rep % 2 == 1)) {
                        Ok(Ok(b)) => {
                            if let Some(i) = (0..a.len().max(b.len())).find(|i| a.get(*i) != b.get(*i)) {
                                diffs.push((i, "in-process"));
                                break;
                            }
                        }
                        _ => diffs.push((0, "replay-failed")),
                    }
                }
            }
            _ => {}
        }
        // separate processes: fresh hash seeds and addresses (every 4th history in quick)
        let mut children = 0;
        if diffs.is_empty() && !first_outputs.is_empty() && (args.thorough() || h % 4 == 0) {
            let want = digests(&first_outputs).iter().map(|d| format!("{d:016x}")).collect::<Vec<_>>().join(" ");
            let procs: Vec<_> = (0..4)
                .map(|_| {
                    std::process::Command::new(&exe)
                        .args(["--prop", "C11", "--child-history", &hseed.to_string()])
                        .output()
                })
                .collect();
            for p in procs {
                children += 1;
                match p {
                    Ok(o) => {
                        let got = String::from_utf8_lossy(&o.stdout).trim().to_string();
                        if got != want {
                            let a: Vec<&str> = want.split(' ').collect();
                            let b: Vec<&str> = got.split(' ').collect();
                            let i = (0..a.len().max(b.len())).find(|i| a.get(*i) != b.get(*i)).unwrap_or(0);
                            diffs.push((i, "cross-process"));
                            break;
                        }
                    }
                    Err(_) => diffs.push((0, "child-failed")),
                }
            }
        }
        wd.end();
        let mut r = report.lock().unwrap();
        r.eval();
        r.count("histories_replayed", 1);
        r.count("in_process_replays", replays_in_process);
        r.count("child_process_replays", children);
        match first {
            Ok(Ok(a)) => {
                r.count("outputs_compared", a.len() as u64);
                if diffs.is_empty() {
                    if a.len() >= 6 {
                        r.nontrivial(hseed);
                    }
                    r.sample(|| json!({"history_seed": hseed, "outputs": a.len(), "first_output_hex": a.first().map(|o| o.iter().take(48).map(|b| format!("{b:02x}")).collect::<String>())}));
                }
                for (i, kind) in diffs {
                    // say what differs: decode the output of the first replay at that index
                    let what = a.get(i).map(|o| describe(o)).unwrap_or_default();
                    r.violation(
                        &format!("replay-differs/{kind}/{}", if what.contains("headers") { "http-request-headers" } else if i % 2 == 1 { "view" } else { "effects" }),
                        &format!("two replays of one history differ ({kind}) at output {i}: {}", what.chars().take(300).collect::<String>()),
                        json!({"lane": "detlab", "history_seed": hseed, "output_index": i, "kind": kind}),
                    );
                }
            }
            Ok(Err(e)) => r.violation("replay-failed", &e, json!({"lane": "detlab", "history_seed": hseed})),
            Err(p) => r.violation(&format!("panic/{}", vcommon::panic_site(&p)), &format!("panic during a replay: {p}"), json!({"lane": "detlab", "history_seed": hseed})),
        }
    }

    // ---- A'': timer-only histories through the capability API, replayed many times in one process ---
    let n_timer_hist = args.share(24, 4_000);
    for h in 0..n_timer_hist {
        let hseed = hash_mix(seed, h ^ 0x71de);
        wd.begin(|| json!({"lane": "detlab-timers", "history_seed": hseed}).to_string());
        let res = vcommon::trap(|| -> Result<Option<(usize, usize)>, String> {
            let first = replay_timers(hseed)?;
            for rep in 1..24 {
                let again = replay_timers(hseed)?;
                if let Some(i) = (0..first.len().max(again.len())).find(|i| first.get(*i) != again.get(*i)) {
                    return Ok(Some((rep, i)));
                }
            }
            Ok(None)
        });
        wd.end();
        let mut r = report.lock().unwrap();
        r.eval();
        r.count("timer_histories_replayed", 1);
        r.count("in_process_replays", 24);
        match res {
            Ok(Ok(None)) => r.nontrivial(hseed ^ 0x71de),
            Ok(Ok(Some((rep, i)))) => r.violation(
                "replay-differs/in-process/capability-timers",
                &format!("replay {rep} of a capability-API timer history differs from the first replay in this process at output {i} ({})", if i % 2 == 1 { "view" } else { "effects" }),
                json!({"lane": "detlab-timers", "history_seed": hseed, "replay": rep, "output_index": i}),
            ),
            Ok(Err(e)) => r.violation("replay-failed", &e, json!({"lane": "detlab-timers", "history_seed": hseed})),
            Err(p) => r.violation(&format!("panic/{}", vcommon::panic_site(&p)), &format!("panic during a timer replay: {p}"), json!({"lane": "detlab-timers", "history_seed": hseed})),
        }
    }

    // ---- A': command programs (cmdlab) replayed on core and bridge hosts ------------------------------
    let n_prog = args.share(1_500, 200_000);
    for c in 0..n_prog {
        let mut rng = Rng::derive(seed, c, 111);
        let mut gc = if args.thorough() { GenCfg::thorough() } else { GenCfg::quick() };
        gc.event_then = true;
        // one program in three runs through the capability API (legacy executor: tasks that spawn
        // tasks, yield and wait side by side, so that freshly spawned and woken tasks are runnable
        // in the same pass)
        let legacy = c % 3 == 2;
        if legacy {
            gc.legacy = true;
            gc.event_then = false;
            gc.script_weight = gc.script_weight.max(30);
        }
        let program = Gen::new(&mut rng, gc).program();
        let cfg = RunCfg {
            drop: false,
            reresolve: false,
            abort: !legacy,
            ..RunCfg::default_for(rng.range(4, 25) as usize)
        };
        let n_replays = if legacy { 8 } else { 4 };
        let mode = if legacy { Mode::LEGACY } else { Mode::CORE };
        // first run generates the history, the others replay it; the observations (ordered) must be identical
        let mut runs: Vec<String> = vec![];
        let mut actions = vec![];
        wd.begin(|| json!({"lane": "detlab-programs", "program": program}).to_string());
        let res = vcommon::trap(|| {
            for i in 0..n_replays {
                let mut hosts = if legacy {
                    vec![HostSlot::new(Box::new(TracingHost::new(Box::new(CoreHost::<cmdlab::ops::AppD>::new(true)))), 0)]
                } else {
                    vec![
                        HostSlot::new(Box::new(TracingHost::new(Box::new(CoreHost::<cmdlab::ops::AppM>::new(false)))), 0),
                        HostSlot::new(Box::new(TracingHost::new(Box::new(BridgeHost::<cmdlab::ops::AppD>::new(Wire::Bincode)))), 0),
                    ]
                };
                let out = if i == 0 {
                    let o = run_case(&program, &mut hosts, &[mode], &mut rng, &cfg, None);
                    actions = o.actions.clone();
                    o
                } else {
                    run_case(&program, &mut hosts, &[mode], &mut Rng::new(1), &cfg, Some((&actions, None)))
                };
                let _ = out;
                runs.push(TRACE.lock().unwrap().drain(..).collect::<Vec<_>>().join("\n"));
            }
        });
        wd.end();
        let mut r = report.lock().unwrap();
        r.eval();
        r.count("program_replays", n_replays as u64);
        if legacy {
            r.count("capability_api_program_replays", n_replays as u64);
        }
        match res {
            Ok(()) => {
                if runs.windows(2).all(|w| w[0] == w[1]) {
                    if actions.len() >= 3 {
                        r.nontrivial(vcommon::hash_json(&(&program, &actions)));
                    }
                } else {
                    r.violation(
                        if legacy { "replay-differs/in-process/capability-api-program" } else { "replay-differs/in-process/command-program" },
                        "the ordered observations of a program differ between replays of one history",
                        json!({"lane": "detlab-programs", "legacy": legacy, "program": program, "actions": actions}),
                    );
                }
            }
            Err(p) => r.violation(&format!("panic/{}", vcommon::panic_site(&p)), &format!("panic: {p}"), json!({"lane": "detlab-programs", "program": program})),
        }
    }

    // ---- B: equality laws ---------------------------------------------------------------------------------
    let n_eq = args.share(20_000, 3_000_000);
    for c in 0..n_eq {
        let mut rng = Rng::derive(seed, c, 112);
        let mut r = report.lock().unwrap();
        r.eval();
        if let Err(p) = vcommon::trap(|| equality_case(&mut rng, &mut r)) {
            r.violation(&format!("panic/{}", vcommon::panic_site(&p)), &format!("panic in an equality case: {p}"), json!({"lane": "detlab-eq"}));
        }
    }
    timer_handle_laws(&report);
    timer_race_replays(&report);
    join_order_replays(&report);
    if args.worker == 0 {
        deadline_replays(&report);
    }
    report.lock().unwrap().finish(&args);
}

fn describe(output: &[u8]) -> String {
    if let Ok(reqs) = bopts().deserialize::<Vec<WireReq>>(output) {
        return format!("{reqs:?}");
    }
    if let Ok(v) = bopts().deserialize::<ViewModel>(output) {
        return format!("{:?}", v.log.last());
    }
    "<undecodable>".into()
}

// a host wrapper that records every observation in order
static TRACE: Mutex<Vec<String>> = Mutex::new(Vec::new());

struct TracingHost {
    inner: Box<dyn Host>,
}

impl TracingHost {
    fn new(inner: Box<dyn Host>) -> Self {
        TracingHost { inner }
    }
}

impl Host for TracingHost {
    fn name(&self) -> &'static str {
        self.inner.name()
    }
    fn caps(&self) -> cmdlab::hosts::Caps {
        self.inner.caps()
    }
    fn start(&mut self, program: &cmdlab::ast::Cmd) -> cmdlab::hosts::Obs {
        let o = self.inner.start(program);
        TRACE.lock().unwrap().push(format!("{} {:?} {:?}", self.inner.name(), o.effects, o.events));
        o
    }
    fn act(&mut self, action: &cmdlab::ast::Action) -> cmdlab::hosts::Obs {
        let o = self.inner.act(action);
        TRACE.lock().unwrap().push(format!("{} {:?} {:?} {:?}", self.inner.name(), o.effects, o.events, o.resolve_ok));
        o
    }
    fn finish(&mut self) -> Vec<String> {
        self.inner.finish()
    }
}

#[derive(Clone, Debug, PartialEq)]
struct Content {
    status: u16,
    headers: BTreeMap<String, Vec<String>>,
    body: Option<Vec<u8>>,
}

fn build_response(c: &Content, rng: &mut Rng) -> crux_http::Response<Vec<u8>> {
    let status: crux_http::http::StatusCode = c.status.try_into().expect("valid status");
    let mut b = ResponseBuilder::with_status(status);
    let mut names: Vec<&String> = c.headers.keys().collect();
    rng.shuffle(&mut names);
    for n in names {
        let vals: Vec<crux_http::http::headers::HeaderValue> = c.headers[n].iter().map(|v| v.parse().unwrap()).collect();
        b = b.header(n.as_str(), &vals[..]);
    }
    match &c.body {
        Some(body) => b.body(body.clone()).build(),
        None => b.build(),
    }
}

fn equality_case(rng: &mut Rng, r: &mut Report) {
    let mut headers = BTreeMap::new();
    for _ in 0..rng.below(6) {
        let nv = if rng.chance(1, 3) { rng.range(2, 3) } else { 1 };
        headers.insert(format!("x-{}", token(rng)), (0..nv).map(|_| token(rng)).collect::<Vec<_>>());
    }
    let c1 = Content {
        status: *rng.pick(&[200u16, 201, 204, 301, 404]),
        headers,
        body: if rng.chance(1, 5) { None } else { Some(rng.bytes(8)) },
    };
    let mut c2 = c1.clone();
    let kind = rng.below(9);
    match kind {
        0 | 1 | 2 => {} // equal content, independently built
        3 => {
            if let Some(k) = c2.headers.keys().next().cloned() {
                c2.headers.remove(&k);
            } else {
                c2.headers.insert("x-extra".into(), vec!["v".into()]);
            }
        }
        4 => {
            c2.headers.insert(format!("x-more-{}", token(rng)), vec![token(rng)]);
        }
        5 => {
            if let Some(v) = c2.headers.values_mut().next() {
                v[0].push('!');
            } else {
                c2.status = 202;
            }
        }
        6 => {
            if let Some(v) = c2.headers.values_mut().find(|v| v.len() > 1) {
                v.pop();
            } else {
                c2.body = Some(b"other".to_vec());
            }
        }
        7 => c2.status = if c1.status == 200 { 201 } else { 200 },
        _ => c2.body = Some(rng.bytes(9)),
    }
    let r1 = build_response(&c1, rng);
    let r2 = build_response(&c2, rng);
    let want = c1 == c2;
    r.count("response_equalities_checked", 1);
    r.set("equality_cases", if want { "equal-content" } else { "different-content" });
    let ab = r1 == r2;
    let ba = r2 == r1;
    let detail = json!({"lane": "detlab-eq", "left": format!("{c1:?}"), "right": format!("{c2:?}")});
    if ab != ba {
        r.violation("equality/response-not-symmetric", "Response: a == b and b == a disagree", detail.clone());
    }
    if want && !ab {
        r.violation("equality/equal-responses-compare-unequal", "two independently built responses with equal contents compare unequal", detail.clone());
    }
    if !want && (ab || ba) {
        r.violation("equality/different-responses-compare-equal", "two responses with different contents compare equal", detail.clone());
    }
    #[allow(clippy::eq_op)]
    if r1 != r1.clone() {
        r.violation("equality/response-not-reflexive", "a response does not equal its clone", detail);
    }
    if ab == want && ba == want {
        r.nontrivial(vcommon::hash_json(&(format!("{c1:?}"), format!("{c2:?}"))));
    }
}

/// Several tasks wait for the same task through copies of its join handle and each asks the shell
/// for something afterwards: the order of those requests must be the same in every replay, whatever
/// the allocator did in between (nothing may be ordered by address).
fn join_order_replays(report: &Arc<Mutex<Report>>) {
    use cmdlab::ops::{m::Effect, Event as LabEvent, LabEffect, Op as LabOp, Split, Val};
    let run = |waiters: u32| -> Vec<u32> {
        let mut cmd: crux_core::Command<Effect, LabEvent> = crux_core::Command::new(move |ctx| async move {
            let child = ctx.spawn(|ctx| async move {
                ctx.request_from_shell(LabOp { site: 1, arg: 0, kind: 0, trail: vec![] }).await;
            });
            for i in 0..waiters {
                let h = child.clone();
                ctx.spawn(move |ctx| async move {
                    h.await;
                    ctx.request_from_shell(LabOp { site: 10 + i, arg: 0, kind: 0, trail: vec![] }).await;
                });
            }
        });
        let mut first: Vec<_> = cmd.effects().collect();
        let mut order = vec![];
        if let Some(e) = first.pop() {
            if let Split::Op(mut r) = e.split() {
                let _ = r.resolve(Val(7));
            }
        }
        let later: Vec<_> = cmd.effects().collect();
        for e in &later {
            order.push(match e {
                Effect::Op(r) => r.operation.site,
                _ => 0,
            });
        }
        // keep the requests alive until the order is read
        drop(later);
        order
    };
    for waiters in [2u32, 3, 5, 8] {
        let res = vcommon::trap(|| {
            let first = run(waiters);
            let mut junk: Vec<Vec<u8>> = vec![];
            for rep in 1..40usize {
                // unrelated heap activity between replays moves later allocations around
                junk.push(vec![0u8; 16 + (rep * 37) % 900]);
                if rep % 3 == 0 {
                    junk.remove(0);
                }
                let again = run(waiters);
                if again != first {
                    return (first, Some((rep, again)));
                }
            }
            (first, None)
        });
        let mut r = report.lock().unwrap();
        r.eval();
        r.count("join_order_replays", 40);
        match res {
            Ok((first, None)) => {
                if first.len() == waiters as usize {
                    r.nontrivial(vcommon::hash_json(&("join-order", waiters)));
                } else {
                    r.violation("replay-failed", &format!("join-order history produced {first:?}"), json!({"lane": "detlab-join-order", "waiters": waiters}));
                }
            }
            Ok((first, Some((rep, again)))) => r.violation(
                "replay-differs/in-process/join-wake-order",
                &format!("replay {rep}: tasks waiting for one task through copies of its join handle asked the shell in the order {again:?}, the first replay in the order {first:?}"),
                json!({"lane": "detlab-join-order", "waiters": waiters}),
            ),
            Err(p) => r.violation(&format!("panic/{}", vcommon::panic_site(&p)), &format!("panic: {p}"), json!({"lane": "detlab-join-order"})),
        }
    }
}

/// A capability-API timer whose deadline lies a second ahead is replayed before and after that
/// moment: what the core emits may not depend on the wall clock.
fn deadline_replays(report: &Arc<Mutex<Report>>) {
    let run = |deadline_secs: u64| -> Result<Vec<Vec<u8>>, String> {
        let bridge: Bridge<AppD> = Bridge::new(Core::new());
        let mut norm = TimerNorm { map: HashMap::new() };
        let mut outputs = vec![];
        for api in [Api::Legacy, Api::Command] {
            let batch = bridge.process_event(&ser(&Event::Do(Job::Time(api, TimeJob::NotifyAtSecs(deadline_secs, 0))))).map_err(|e| e.to_string())?;
            let reqs: Vec<WireReq> = bopts().deserialize(&batch).map_err(|e| format!("effects do not decode: {e}"))?;
            outputs.push(ser(&reqs.into_iter().map(|r| WireReq { id: r.id, effect: norm.op(r.effect) }).collect::<Vec<_>>()));
            outputs.push(bridge.view().map_err(|e| e.to_string())?);
        }
        Ok(outputs)
    };
    let now = std::time::SystemTime::now().duration_since(std::time::UNIX_EPOCH).map(|d| d.as_secs()).unwrap_or(0);
    let deadline = now + 2;
    let res = vcommon::trap(|| -> Result<bool, String> {
        let before = run(deadline)?;
        // past the deadline (a sleep in the workload, not a verdict)
        std::thread::sleep(Duration::from_millis(2600));
        let after = run(deadline)?;
        Ok(before == after)
    });
    let mut r = report.lock().unwrap();
    r.eval();
    r.count("replays_before_and_after_a_wall_clock_deadline", 2);
    match res {
        Ok(Ok(true)) => r.nontrivial(0xdead_11e),
        Ok(Ok(false)) => r.violation(
            "replay-differs/in-process/wall-clock",
            "a history with a timer deadline replayed before and after that moment of wall-clock time gives different outputs",
            json!({"lane": "detlab-deadline", "deadline_secs": deadline}),
        ),
        Ok(Err(e)) => r.violation("replay-failed", &e, json!({"lane": "detlab-deadline"})),
        Err(p) => r.violation(&format!("panic/{}", vcommon::panic_site(&p)), &format!("panic: {p}"), json!({"lane": "detlab-deadline"})),
    }
}

/// Command-level timer histories in which the shell's answer and the app's clear are both waiting
/// when the timer task is next polled: which one wins must not vary between replays.
fn timer_race_replays(report: &Arc<Mutex<Report>>) {
    use crux_time::command::{Time, TimerOutcome};
    #[crux_core::macros::effect]
    pub enum Effect {
        Time(TimeRequest),
    }
    // P = poll, F = shell answers the timer request, C = app clears, A = shell answers the clear
    let histories = ["PFCP", "PCFP", "PFCPAP", "PCFPAP", "CP", "PCPFP", "PCPAFP", "PFP", "PCPAP"];
    for after in [true, false] {
        for built in [0u8, 1] {
            for h in histories {
                let run = || -> Vec<String> {
                    let outcome = |o: TimerOutcome| matches!(o, TimerOutcome::Completed(_));
                    let (mut cmd, handle) = if after {
                        let (b, hd) = Time::<Effect, bool>::notify_after(std::time::Duration::from_millis(9));
                        (if built == 0 { b.then_send(outcome) } else { crux_core::Command::new(move |ctx| { let f = b.into_future(ctx.clone()); async move { let o = f.await; ctx.send_event(outcome(o)); } }) }, hd)
                    } else {
                        let (b, hd) = Time::<Effect, bool>::notify_at(std::time::SystemTime::UNIX_EPOCH + std::time::Duration::from_secs(1_700_000_123));
                        (if built == 0 { b.then_send(outcome) } else { crux_core::Command::new(move |ctx| { let f = b.into_future(ctx.clone()); async move { let o = f.await; ctx.send_event(outcome(o)); } }) }, hd)
                    };
                    let mut handle = Some(handle);
                    let mut request = None;
                    let mut clear_request = None;
                    let mut tid = None;
                    let mut trace = vec![];
                    for c in h.chars() {
                        match c {
                            'P' => {
                                let mut line = String::from("poll:");
                                for e in cmd.effects().collect::<Vec<_>>() {
                                    let Effect::Time(r) = e;
                                    match r.operation.clone() {
                                        TimeRequest::NotifyAfter { id, .. } | TimeRequest::NotifyAt { id, .. } => {
                                            tid = Some(id);
                                            request = Some(r);
                                            line.push_str(" timer-request");
                                        }
                                        TimeRequest::Clear { .. } => {
                                            clear_request = Some(r);
                                            line.push_str(" clear-request");
                                        }
                                        TimeRequest::Now => line.push_str(" now?"),
                                    }
                                }
                                for ev in cmd.events().collect::<Vec<_>>() {
                                    line.push_str(if ev { " completed" } else { " cleared" });
                                }
                                trace.push(line);
                            }
                            'F' => {
                                if let (Some(r), Some(id)) = (request.as_mut(), tid) {
                                    let resp = if after { TimeResponse::DurationElapsed { id } } else { TimeResponse::InstantArrived { id } };
                                    trace.push(format!("fire:{}", r.resolve(resp).is_ok()));
                                }
                            }
                            'C' => {
                                if let Some(hd) = handle.take() {
                                    hd.clear();
                                }
                            }
                            _ => {
                                if let (Some(r), Some(id)) = (clear_request.as_mut(), tid) {
                                    trace.push(format!("answer-clear:{}", r.resolve(TimeResponse::Cleared { id }).is_ok()));
                                }
                            }
                        }
                    }
                    trace
                };
                let res = vcommon::trap(|| {
                    let first = run();
                    let mut differing = None;
                    for rep in 1..48 {
                        let again = run();
                        if again != first {
                            differing = Some((rep, again));
                            break;
                        }
                    }
                    (first, differing)
                });
                let mut r = report.lock().unwrap();
                r.eval();
                r.count("timer_race_histories", 1);
                r.count("timer_race_replays", 48);
                match res {
                    Ok((first, None)) => {
                        r.nontrivial(vcommon::hash_json(&("timer-race", h, after, built)));
                        let _ = first;
                    }
                    Ok((first, Some((rep, again)))) => r.violation(
                        "replay-differs/in-process/timer-race",
                        &format!("replay {rep} of a command-level timer history differs from the first: {again:?} vs {first:?}"),
                        json!({"lane": "detlab-timer-race", "history_P_poll_F_fire_C_clear_A_answer_clear": h, "notify_after": after, "built": built}),
                    ),
                    Err(p) => r.violation(&format!("panic/{}", vcommon::panic_site(&p)), &format!("panic: {p}"), json!({"lane": "detlab-timer-race", "history": h})),
                }
            }
        }
    }
}

fn timer_handle_laws(report: &Arc<Mutex<Report>>) {
    use crux_time::command::{Time, TimerOutcome};
    #[crux_core::macros::effect]
    pub enum Effect {
        Time(TimeRequest),
    }
    let mut r = report.lock().unwrap();
    let res = vcommon::trap(|| {
        let mut problems = vec![];
        let mut outcomes = vec![];
        let mut handles = vec![];
        for i in 0..6 {
            let (b, h) = Time::<Effect, crux_time::command::TimerOutcome>::notify_after(std::time::Duration::from_millis(5 + i));
            let mut cmd = b.then_send(|o| o);
            let e = cmd.effects().next().expect("request");
            let Effect::Time(mut req) = e;
            let TimeRequest::NotifyAfter { id, .. } = req.operation.clone() else { panic!("wrong request") };
            req.resolve(TimeResponse::DurationElapsed { id }).unwrap();
            let o = cmd.events().next().expect("outcome");
            outcomes.push(o);
            handles.push(h);
        }
        for (i, h) in handles.iter().enumerate() {
            for (j, o) in outcomes.iter().enumerate() {
                if let TimerOutcome::Completed(c) = o {
                    let eq1 = h == c;
                    let eq2 = c == h;
                    if eq1 != eq2 {
                        problems.push("TimerHandle == CompletedTimerHandle is not symmetric".to_string());
                    }
                    if eq1 != (i == j) {
                        problems.push(format!("handle {i} == completed {j} is {eq1}"));
                    }
                }
            }
            for (j, h2) in handles.iter().enumerate() {
                if (h == h2) != (i == j) {
                    problems.push(format!("handle {i} == handle {j} is {}", h == h2));
                }
            }
        }
        problems
    });
    r.eval();
    r.count("timer_handle_equalities_checked", 72);
    match res {
        Ok(p) => {
            for x in p {
                r.violation("equality/timer-handles", &x, json!({"lane": "detlab-eq"}));
            }
        }
        Err(p) => r.violation(&format!("panic/{}", vcommon::panic_site(&p)), &format!("panic: {p}"), json!({"lane": "detlab-eq"})),
    }
}
