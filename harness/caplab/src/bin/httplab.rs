//! C14 (request reaches the shell as described), C15 (one well-classified outcome per result),
//! C16 (middleware order, bounded and exact redirects).

use std::collections::BTreeMap;
use std::sync::{Arc, Mutex};
use std::time::Duration;

use caplab::app::*;
use caplab::drive::*;
use caplab::mw;
use crux_http::protocol::{HttpHeader, HttpRequest, HttpResponse, HttpResult};
use crux_http::HttpError;
use serde_json::json;
use url::Url;
use vcommon::{hash_json, Args, Report, Rng, Watchdog};

const VALID_STATUS: [u16; 60] = [
    100, 101, 103, 200, 201, 202, 203, 204, 205, 206, 207, 226, 300, 301, 302, 303, 304, 307, 308, 400, 401,
    402, 403, 404, 405, 406, 407, 408, 409, 410, 411, 412, 413, 414, 415, 416, 417, 418, 421, 422, 423, 424,
    425, 426, 428, 429, 431, 451, 500, 501, 502, 503, 504, 505, 506, 507, 508, 510, 511, 0,
];

fn valid_status(s: u16) -> bool {
    s != 0 && VALID_STATUS.contains(&s)
}

// ---------------------------------------------------------------------------
// generators
// ---------------------------------------------------------------------------

fn ascii_token(rng: &mut Rng) -> String {
    let n = rng.range(1, 12) as usize;
    (0..n)
        .map(|_| {
            let c = b"abcdefghijklmnopqrstuvwxyzABCDEFGHIJKLMNOPQRSTUVWXYZ0123456789-_"[rng.usize_below(64)];
            c as char
        })
        .collect()
}

fn ascii_value(rng: &mut Rng) -> String {
    match rng.below(6) {
        0 => String::new(),
        1 => "a, b;q=0.5".into(),
        2 => "x".repeat(rng.range(100, 3000) as usize),
        _ => {
            let n = rng.range(1, 30) as usize;
            (0..n)
                .map(|i| {
                    let c = rng.range(0x21, 0x7e) as u8 as char;
                    if i > 0 && i + 1 < n && rng.chance(1, 8) {
                        ' '
                    } else {
                        c
                    }
                })
                .collect()
        }
    }
}

fn unicode_text(rng: &mut Rng) -> String {
    match rng.below(6) {
        0 => String::new(),
        1 => "plain ascii text".into(),
        2 => "héllo wörld \u{1F980} 日本語".into(),
        3 => "z".repeat(rng.range(1000, 100_000) as usize),
        _ => {
            let n = rng.range(1, 40) as usize;
            (0..n)
                .map(|_| match rng.below(4) {
                    0 => char::from_u32(rng.range(0x20, 0x7e) as u32).unwrap(),
                    1 => char::from_u32(rng.range(0xa0, 0x7ff) as u32).unwrap(),
                    2 => char::from_u32(rng.range(0x4e00, 0x9fff) as u32).unwrap(),
                    _ => char::from_u32(rng.range(0x1f300, 0x1f5ff) as u32).unwrap(),
                })
                .collect()
        }
    }
}

fn binary(rng: &mut Rng, big: bool) -> Vec<u8> {
    let n = match rng.below(8) {
        0 => 0,
        1 => 1,
        2 if big => rng.range(200_000, 1_048_576) as usize,
        2 => rng.range(1000, 20_000) as usize,
        _ => rng.range(2, 200) as usize,
    };
    rng.bytes(n)
}

fn json_value(rng: &mut Rng, depth: usize) -> serde_json::Value {
    match rng.below(if depth > 2 { 5 } else { 7 }) {
        0 => serde_json::Value::Null,
        1 => json!(rng.chance(1, 2)),
        2 => json!(rng.next_u64() >> rng.range(0, 60)),
        3 => json!(-((rng.next_u64() >> 2) as i64)),
        4 => json!(unicode_text(rng).chars().take(50).collect::<String>()),
        5 => serde_json::Value::Array((0..rng.below(4)).map(|_| json_value(rng, depth + 1)).collect()),
        _ => {
            let mut m = serde_json::Map::new();
            for _ in 0..rng.below(4) {
                m.insert(ascii_token(rng), json_value(rng, depth + 1));
            }
            serde_json::Value::Object(m)
        }
    }
}

fn gen_url(rng: &mut Rng) -> String {
    let scheme = *rng.pick(&["http", "https"]);
    let host = *rng.pick(&[
        "example.com",
        "sub.example.co.uk",
        "localhost",
        "127.0.0.1",
        "[::1]",
        "xn--bcher-kva.example",
        "bücher.example",
        "EXAMPLE.com",
    ]);
    let port = match rng.below(4) {
        0 => ":8080".to_string(),
        1 => ":443".to_string(),
        _ => String::new(),
    };
    let path = match rng.below(8) {
        0 => String::new(),
        1 => "/".into(),
        2 => "/a/b/c".into(),
        3 => "/a%20b/%E2%82%AC/c".into(),
        4 => "/päth/日本".into(),
        5 => "/a/./b/../c".into(),
        6 => "/with space/and+plus".into(),
        _ => format!("/{}/{}", ascii_token(rng), ascii_token(rng)),
    };
    let query = match rng.below(6) {
        0 => "?".to_string(),
        1 => "?a=1&b=2".into(),
        2 => "?q=%E2%82%AC&r=a+b&r=c%20d".into(),
        3 => "?ünï=cödé".into(),
        _ => String::new(),
    };
    let frag = match rng.below(5) {
        0 => "#frag".to_string(),
        1 => "#".into(),
        _ => String::new(),
    };
    format!("{scheme}://{host}{port}{path}{query}{frag}")
}

const METHODS: [&str; 9] = ["GET", "HEAD", "POST", "PUT", "DELETE", "PATCH", "OPTIONS", "TRACE", "CONNECT"];
const EXTRA_METHODS: [&str; 8] = ["PROPFIND", "MKCOL", "PURGE", "REPORT", "LOCK", "MOVE", "COPY", "SEARCH"];

fn gen_job(rng: &mut Rng, id: u32) -> HttpJob {
    let big = rng.chance(1, 60);
    let n_headers = match rng.below(5) {
        0 => 0,
        1 => rng.range(6, 12) as usize,
        _ => rng.range(1, 4) as usize,
    };
    let mut headers = vec![];
    for _ in 0..n_headers {
        // repeats in mixed case
        let name = if !headers.is_empty() && rng.chance(1, 4) {
            let prev: &HeaderJob = &headers[rng.usize_below(headers.len())];
            if rng.chance(1, 2) {
                prev.name.to_uppercase()
            } else {
                prev.name.to_lowercase()
            }
        } else if rng.chance(1, 6) {
            (*rng.pick(&["Accept", "authorization", "X-Request-ID", "Cookie", "content-type", "Content-Type", "user-agent"])).to_string()
        } else {
            format!("x-{}", ascii_token(rng))
        };
        let n_values = if rng.chance(1, 3) { rng.range(2, 4) } else { 1 } as usize;
        headers.push(HeaderJob {
            name,
            values: (0..n_values).map(|_| ascii_value(rng)).collect(),
        });
    }
    let body = match rng.below(9) {
        0 | 1 => BodyJob::NoBody,
        2 => BodyJob::Bytes(ByteBuf(binary(rng, big))),
        3 => BodyJob::Text(unicode_text(rng)),
        4 if rng.chance(1, 3) => BodyJob::Typed {
            zeta: rng.below(1000) as u32,
            alpha: unicode_text(rng).chars().take(10).collect(),
            mid_bits: (rng.below(100_000) as f32 / 10.0 + 0.1).to_bits(),
            beta: rng.chance(1, 2),
        },
        4 => BodyJob::Json(serde_json::to_string(&json_value(rng, 0)).unwrap()),
        5 => BodyJob::Form(
            (0..rng.below(5))
                .map(|_| Pair {
                    k: unicode_text(rng).chars().take(8).collect(),
                    v: unicode_text(rng).chars().take(12).collect(),
                })
                .collect(),
        ),
        6 => BodyJob::Reader(ByteBuf(binary(rng, false))),
        7 => BodyJob::SizedReader(ByteBuf(binary(rng, false))),
        _ => BodyJob::Bytes(ByteBuf(vec![])),
    };
    let content_type = if rng.chance(1, 4) {
        Some((*rng.pick(&["text/csv", "application/x-custom+json", "image/png", "text/plain;charset=iso-8859-1"])).to_string())
    } else {
        None
    };
    let query = if rng.chance(1, 4) {
        let mut m: BTreeMap<String, String> = BTreeMap::new();
        for _ in 0..rng.range(1, 4) {
            m.insert(
                unicode_text(rng).chars().filter(|c| *c != '[' && *c != ']').take(6).collect::<String>() + "k",
                unicode_text(rng).chars().take(10).collect(),
            );
        }
        Some(m.into_iter().map(|(k, v)| Pair { k, v }).collect())
    } else {
        None
    };
    HttpJob {
        id,
        method: {
            // the less common methods http-types knows
            let extra: Vec<&str> = EXTRA_METHODS
                .iter()
                .copied()
                .filter(|m| m.parse::<crux_http::http::Method>().is_ok())
                .collect();
            let m = if !extra.is_empty() && rng.chance(1, 8) {
                (*rng.pick(&extra)).to_string()
            } else {
                (*rng.pick(&METHODS)).to_string()
            };
            // half of the time through the API's named constructor (`get`, `trace`, ...)
            if ["GET", "HEAD", "POST", "PUT", "DELETE", "CONNECT", "OPTIONS", "TRACE", "PATCH"].contains(&m.as_str()) && rng.chance(1, 2) {
                format!("{m}!")
            } else {
                m
            }
        },
        url: gen_url(rng),
        headers,
        content_type,
        content_type_after_body: rng.chance(1, 2),
        body,
        query,
        expect: *rng.pick(&[ExpectJob::Bytes, ExpectJob::Text, ExpectJob::Json]),
        client_mw: vec![],
        request_mw: vec![],
        send_async: rng.chance(1, 5),
    }
}

// ---------------------------------------------------------------------------
// C14 oracle: the wire request the description denotes
// ---------------------------------------------------------------------------

struct WantRequest {
    method: String,
    url_without_query: String,
    query: Option<Vec<(String, String)>>,
    raw_query: Option<String>,
    /// lower-case name -> values in order
    headers: BTreeMap<String, Vec<String>>,
    body: WantBody,
}

enum WantBody {
    Bytes(Vec<u8>),
    Json(serde_json::Value),
    Form(Vec<(String, String)>),
}

fn want_request(job: &HttpJob) -> WantRequest {
    let mut url = Url::parse(&job.url).expect("generator produces absolute urls");
    let mut query = None;
    let mut raw_query = url.query().map(|s| s.to_string());
    if let Some(q) = &job.query {
        query = Some(q.iter().map(|p| (p.k.clone(), p.v.clone())).collect());
        raw_query = None;
    }
    url.set_query(None);
    let mut headers: BTreeMap<String, Vec<String>> = BTreeMap::new();
    let explicit_before = job.content_type.is_some() && !job.content_type_after_body;
    if explicit_before {
        headers.insert("content-type".into(), vec![job.content_type.clone().unwrap()]);
    }
    for h in &job.headers {
        // `header()` replaces, names are case-insensitive
        headers.insert(h.name.to_lowercase(), h.values.clone());
    }
    let body_type = match &job.body {
        BodyJob::NoBody => None,
        BodyJob::Bytes(_) | BodyJob::Reader(_) | BodyJob::SizedReader(_) => Some("application/octet-stream"),
        BodyJob::Text(_) => Some("text/plain;charset=utf-8"),
        BodyJob::Json(_) | BodyJob::Typed { .. } => Some("application/json"),
        BodyJob::Form(_) => Some("application/x-www-form-urlencoded"),
    };
    if let Some(t) = body_type {
        // the documented content type, unless the app said otherwise
        headers.entry("content-type".into()).or_insert_with(|| vec![t.to_string()]);
    }
    if let (Some(ct), true) = (&job.content_type, job.content_type_after_body) {
        headers.insert("content-type".into(), vec![ct.clone()]);
    }
    let body = match &job.body {
        BodyJob::NoBody => WantBody::Bytes(vec![]),
        BodyJob::Bytes(b) | BodyJob::Reader(b) | BodyJob::SizedReader(b) => WantBody::Bytes(b.0.clone()),
        BodyJob::Text(s) => WantBody::Bytes(s.as_bytes().to_vec()),
        BodyJob::Json(s) => WantBody::Json(serde_json::from_str(s).unwrap()),
        // a typed value is written once, by its own Serialize: field order and number formatting
        // are the app's, byte for byte
        BodyJob::Typed { .. } => WantBody::Bytes(serde_json::to_vec(&job.body.typed().unwrap()).unwrap()),
        BodyJob::Form(p) => WantBody::Form(p.iter().map(|p| (p.k.clone(), p.v.clone())).collect()),
    };
    WantRequest {
        method: job.method.trim_end_matches('!').to_string(),
        url_without_query: url.to_string(),
        query,
        raw_query,
        headers,
        body,
    }
}

fn mime_eq(a: &str, b: &str) -> bool {
    // compare media types modulo case and optional whitespace around ';' and '='
    let norm = |s: &str| s.to_ascii_lowercase().replace([' ', '"'], "");
    norm(a) == norm(b)
}

fn check_request(want: &WantRequest, got: &HttpRequest) -> Vec<(String, String)> {
    let mut p = vec![];
    if got.method != want.method {
        p.push(("request/method-altered".to_string(), format!("{} vs {}", got.method, want.method)));
    }
    match Url::parse(&got.url) {
        Err(e) => p.push(("request/url-not-absolute".into(), format!("{}: {e}", got.url))),
        Ok(mut u) => {
            let q = u.query().map(|s| s.to_string());
            u.set_query(None);
            if u.to_string() != want.url_without_query {
                p.push(("request/url-altered".into(), format!("{} vs {}", u, want.url_without_query)));
            }
            match (&want.query, &want.raw_query) {
                (Some(pairs), _) => {
                    let got_pairs: Vec<(String, String)> = url::form_urlencoded::parse(q.clone().unwrap_or_default().as_bytes())
                        .map(|(k, v)| (k.into_owned(), v.into_owned()))
                        .collect();
                    let mut a = got_pairs.clone();
                    let mut b = pairs.clone();
                    a.sort();
                    b.sort();
                    if a != b {
                        p.push(("request/query-altered".into(), format!("{got_pairs:?} vs {pairs:?}")));
                    }
                }
                (None, raw) => {
                    if &q != raw {
                        p.push(("request/query-altered".into(), format!("{q:?} vs {raw:?}")));
                    }
                }
            }
        }
    }
    // headers: exact multiset, names case-insensitively
    let mut got_h: BTreeMap<String, Vec<String>> = BTreeMap::new();
    for HttpHeader { name, value } in &got.headers {
        got_h.entry(name.to_lowercase()).or_default().push(value.clone());
    }
    for (name, vals) in &want.headers {
        match got_h.get(name) {
            None => p.push(("request/header-lost".into(), format!("{name}: {vals:?}"))),
            Some(g) if name == "content-type" => {
                if g.len() != vals.len() || !g.iter().zip(vals).all(|(a, b)| mime_eq(a, b)) {
                    p.push(("request/content-type-wrong".into(), format!("{g:?} vs {vals:?}")));
                }
            }
            Some(g) if g != vals => p.push(("request/header-values-altered".into(), format!("{name}: {g:?} vs {vals:?}"))),
            _ => {}
        }
    }
    for (name, vals) in &got_h {
        if !want.headers.contains_key(name) {
            p.push(("request/header-added".into(), format!("{name}: {vals:?}")));
        }
    }
    match &want.body {
        WantBody::Bytes(b) => {
            if &got.body != b {
                p.push((
                    if got.body.is_empty() { "request/body-lost" } else { "request/body-altered" }.into(),
                    format!("{} bytes vs {} bytes", got.body.len(), b.len()),
                ));
            }
        }
        WantBody::Json(v) => match serde_json::from_slice::<serde_json::Value>(&got.body) {
            Ok(g) if &g == v => {}
            other => p.push(("request/json-body-altered".into(), format!("{other:?} vs {v}"))),
        },
        WantBody::Form(pairs) => {
            let g: Vec<(String, String)> = url::form_urlencoded::parse(&got.body)
                .map(|(k, v)| (k.into_owned(), v.into_owned()))
                .collect();
            if &g != pairs {
                p.push(("request/form-body-altered".into(), format!("{g:?} vs {pairs:?}")));
            }
        }
    }
    p
}

// ---------------------------------------------------------------------------
// C15 oracle
// ---------------------------------------------------------------------------

const CONTENT_TYPES: [&str; 14] = [
    "text/plain",
    "text/plain; charset=utf-8",
    "text/plain;charset=UTF-8",
    "text/html; charset=ISO-8859-1",
    "application/json",
    "text/plain; charset=\"utf-8\"",
    "text/plain; charset=windows-1252",
    "text/plain; charset=euc-kr",
    "text/plain; charset=shift_jis",
    "text/plain; charset=utf-16le",
    "text/plain; charset=bogus-charset",
    "application/octet-stream",
    "text/plain; charset=gbk",
    "text/plain; charset=iso-8859-5",
];

fn charset_of(content_type: Option<&str>) -> Option<String> {
    let ct = content_type?;
    for part in ct.split(';').skip(1) {
        let mut kv = part.splitn(2, '=');
        let k = kv.next()?.trim();
        if k.eq_ignore_ascii_case("charset") {
            return Some(kv.next()?.trim().trim_matches('"').to_string());
        }
    }
    None
}

/// What a conforming decoder yields (None = error)
fn conforming_decode(bytes: &[u8], charset: Option<&str>) -> Option<String> {
    let label = charset.unwrap_or("utf-8");
    let is_utf8 = ["utf-8", "utf8", "unicode-1-1-utf-8"].iter().any(|l| l.eq_ignore_ascii_case(label));
    let has_bom = bytes.starts_with(&[0xef, 0xbb, 0xbf]) || bytes.starts_with(&[0xff, 0xfe]) || bytes.starts_with(&[0xfe, 0xff]);
    if is_utf8 && !has_bom {
        return String::from_utf8(bytes.to_vec()).ok();
    }
    let enc = encoding_rs::Encoding::for_label(label.as_bytes())?;
    let (text, _, had_errors) = enc.decode(bytes);
    if had_errors {
        None
    } else {
        Some(text.into_owned())
    }
}

fn gen_response_body(rng: &mut Rng, charset: Option<&str>) -> Vec<u8> {
    match rng.below(10) {
        0 => vec![],
        1 => unicode_text(rng).into_bytes(),
        2 => {
            // text in the claimed charset
            let t = unicode_text(rng);
            match charset.and_then(|c| encoding_rs::Encoding::for_label(c.as_bytes())) {
                Some(enc) => enc.encode(&t).0.into_owned(),
                None => t.into_bytes(),
            }
        }
        3 => {
            let mut b = vec![0xef, 0xbb, 0xbf];
            b.extend_from_slice(unicode_text(rng).as_bytes());
            b
        }
        4 => {
            let mut b = vec![0xff, 0xfe];
            for u in unicode_text(rng).encode_utf16() {
                b.extend_from_slice(&u.to_le_bytes());
            }
            b
        }
        5 => vec![0xc3, 0x28, 0xa0, 0xa1, 0xff],
        6 => serde_json::to_vec(&json_value(rng, 0)).unwrap(),
        7 => b"{\"broken\": ".to_vec(),
        _ => binary(rng, false),
    }
}

struct Case15 {
    result: HttpResult,
    class: &'static str,
}

fn gen_result(rng: &mut Rng, status_override: Option<u16>, expect: ExpectJob) -> Case15 {
    if status_override.is_none() && rng.chance(1, 8) {
        let e = match rng.below(3) {
            0 => HttpError::Url(unicode_text(rng)),
            1 => HttpError::Io(unicode_text(rng)),
            _ => HttpError::Timeout,
        };
        return Case15 {
            result: HttpResult::Err(e),
            class: "shell-error",
        };
    }
    let status = status_override.unwrap_or_else(|| {
        if rng.chance(1, 12) {
            *rng.pick(&[0u16, 99, 199, 299, 305, 306, 399, 419, 499, 509, 599, 600, 999, 1000, 65535])
        } else {
            VALID_STATUS[rng.usize_below(59)]
        }
    });
    let mut headers = vec![];
    let mut class = "response";
    let ct = if rng.chance(3, 4) {
        Some(*rng.pick(&CONTENT_TYPES))
    } else {
        None
    };
    for _ in 0..rng.below(5) {
        let name = if !headers.is_empty() && rng.chance(1, 3) {
            let h: &HttpHeader = &headers[rng.usize_below(headers.len())];
            if rng.chance(1, 2) {
                h.name.to_uppercase()
            } else {
                h.name.clone()
            }
        } else {
            format!("X-{}", ascii_token(rng))
        };
        headers.push(HttpHeader {
            name,
            value: {
                let v = ascii_value(rng);
                // what the shell hands over is what the app gets, blanks and tabs at the ends included
                match rng.below(12) {
                    0 => format!(" {v}"),
                    1 => format!("{v}\t "),
                    2 => "  ".into(),
                    _ => v,
                }
            },
        });
    }
    if let Some(ct) = ct {
        let pos = rng.usize_below(headers.len() + 1);
        headers.insert(
            pos,
            HttpHeader {
                name: (*rng.pick(&["content-type", "Content-Type", "CONTENT-TYPE"])).to_string(),
                value: ct.to_string(),
            },
        );
    }
    if rng.chance(1, 40) {
        class = "non-ascii-header";
        if rng.chance(1, 2) {
            headers.push(HttpHeader {
                name: "x-unicode".into(),
                value: "caf\u{e9} \u{1F980}".into(),
            });
        } else {
            headers.push(HttpHeader {
                name: "x-n\u{e4}me".into(),
                value: "v".into(),
            });
        }
    }
    // a second Content-Type header (another value of the same header): the last one governs
    if ct.is_some() && rng.chance(1, 6) {
        let pos = rng.usize_below(headers.len() + 1);
        headers.insert(
            pos,
            HttpHeader {
                name: (*rng.pick(&["content-type", "Content-Type"])).to_string(),
                value: (*rng.pick(&CONTENT_TYPES)).to_string(),
            },
        );
        if class == "response" {
            class = "repeated-content-type";
        }
    }
    let ct = headers
        .iter()
        .filter(|h| h.name.eq_ignore_ascii_case("content-type"))
        .last()
        .map(|h| h.value.clone());
    let charset = charset_of(ct.as_deref());
    let body = match expect {
        // bodies that matter for the expectation, half of the time
        ExpectJob::Json if rng.chance(1, 2) => {
            let v = json!({"name": unicode_text(rng).chars().take(30).collect::<String>(), "n": rng.below(1000), "nested": json_value(rng, 1)});
            serde_json::to_vec(&v).unwrap()
        }
        ExpectJob::Text if rng.chance(1, 2) => {
            let t = unicode_text(rng);
            match charset.as_deref().and_then(|c| encoding_rs::Encoding::for_label(c.as_bytes())) {
                Some(enc) => enc.encode(&t).0.into_owned(),
                None => t.into_bytes(),
            }
        }
        _ => gen_response_body(rng, charset.as_deref()),
    };
    Case15 {
        result: HttpResult::Ok(HttpResponse { status, headers, body }),
        class,
    }
}

/// expected outcome; Err(()) = "some error value" (which one is not specified)
enum Want15 {
    Exactly(HttpOut),
    OkWith { status: u16, headers: Vec<Pair>, body: Result<BodyOut, ()> },
    HttpErr { code: u16, body: Vec<u8> },
}

fn want_outcome_with(result: &HttpResult, expect: ExpectJob, classify: bool) -> Want15 {
    match result {
        HttpResult::Err(e) => Want15::Exactly(HttpOut::Err(e.clone().into())),
        HttpResult::Ok(resp) => {
            if classify && (400..=599).contains(&resp.status) {
                return Want15::HttpErr {
                    code: resp.status,
                    body: resp.body.clone(),
                };
            }
            let mut headers: Vec<Pair> = resp
                .headers
                .iter()
                .map(|h| Pair {
                    k: h.name.to_lowercase(),
                    v: h.value.clone(),
                })
                .collect();
            headers.sort_by(|a, b| (a.k.as_str(), a.v.as_str()).cmp(&(b.k.as_str(), b.v.as_str())));
            // the last content-type value decides the charset
            let ct = resp
                .headers
                .iter()
                .filter(|h| h.name.eq_ignore_ascii_case("content-type"))
                .last()
                .map(|h| h.value.as_str());
            let body = match expect {
                ExpectJob::Bytes => Ok(BodyOut::Bytes(ByteBuf(resp.body.clone()))),
                ExpectJob::Text => conforming_decode(&resp.body, charset_of(ct).as_deref())
                    .map(BodyOut::Text)
                    .ok_or(()),
                ExpectJob::Json => serde_json::from_slice::<serde_json::Value>(&resp.body)
                    .map(|v| BodyOut::Json(serde_json::to_string(&v).unwrap()))
                    .map_err(|_| ()),
            };
            Want15::OkWith {
                status: resp.status,
                headers,
                body,
            }
        }
    }
}

fn check_outcome(want: &Want15, got: &HttpOut) -> Vec<(String, String)> {
    let mut p = vec![];
    match (want, got) {
        (Want15::Exactly(w), g) => {
            if w != g {
                p.push(("result/shell-error-altered".into(), format!("{g:?} vs {w:?}").chars().take(400).collect()));
            }
        }
        (Want15::HttpErr { code, body }, HttpOut::Err(HttpErrOut::Http { code: c, body: b, .. })) => {
            if c != code {
                p.push(("result/error-status-altered".into(), format!("{c} vs {code}")));
            }
            if b.as_ref().map(|b| &b.0) != Some(body) {
                p.push(("result/error-body-altered".into(), format!("{:?} bytes vs {} bytes", b.as_ref().map(|b| b.0.len()), body.len())));
            }
        }
        (Want15::HttpErr { code, .. }, g) => p.push((
            "result/4xx-5xx-not-an-http-error".into(),
            format!("status {code} became {}", format!("{g:?}").chars().take(200).collect::<String>()),
        )),
        (Want15::OkWith { status, headers, body }, HttpOut::Ok { status: s, headers: h, body: b }) => {
            if s != status {
                p.push(("result/status-altered".into(), format!("{s} vs {status}")));
            }
            if h != headers {
                let added: Vec<&Pair> = h.iter().filter(|x| !headers.contains(x)).collect();
                let lost: Vec<&Pair> = headers.iter().filter(|x| !h.contains(x)).collect();
                let sig = if !added.is_empty() && lost.is_empty() {
                    "result/header-added"
                } else if added.is_empty() {
                    "result/header-lost"
                } else {
                    "result/headers-altered"
                };
                p.push((sig.into(), format!("added {added:?} lost {lost:?}").chars().take(400).collect()));
            }
            match (body, b) {
                (Ok(w), g) if w == g => {}
                (Ok(w), g) => {
                    let sig = match (w, g) {
                        (BodyOut::Text(a), BodyOut::Text(b)) if b.strip_prefix('\u{feff}') == Some(a.as_str()) => "result/text-keeps-byte-order-mark",
                        (BodyOut::Text(_), _) => "result/text-differs-from-conforming-decode",
                        (BodyOut::Json(_), _) => "result/json-differs",
                        _ => "result/body-altered",
                    };
                    p.push((sig.into(), format!("{g:?} vs {w:?}").chars().take(300).collect()));
                }
                (Err(()), g) => p.push((
                    "result/undecodable-body-yields-a-value".into(),
                    format!("{g:?}").chars().take(200).collect(),
                )),
            }
        }
        (Want15::OkWith { body: Err(()), .. }, HttpOut::Err(_)) => {} // an error value, as it should be
        (Want15::OkWith { status, .. }, HttpOut::Err(e)) => p.push((
            "result/success-became-an-error".into(),
            format!("status {status}: {}", format!("{e:?}").chars().take(200).collect::<String>()),
        )),
    }
    p
}

// ---------------------------------------------------------------------------
// running
// ---------------------------------------------------------------------------

struct Cycle {
    request: Option<HttpRequest>,
    extra_effects: usize,
    outcomes: Vec<HttpOut>,
}

fn one_cycle(shell: &mut Box<dyn Shell>, api: Api, job: &HttpJob, result: HttpResult) -> Result<Cycle, String> {
    let before = shell.log()?.len();
    let effects = shell.send(&Job::Http(api, job.clone()))?;
    let mut c = Cycle {
        request: None,
        extra_effects: effects.len().saturating_sub(1),
        outcomes: vec![],
    };
    let Some((h, op)) = effects.into_iter().next() else {
        return Ok(c);
    };
    match op {
        Op::Http(r) => c.request = Some(r),
        other => return Err(format!("not an http request: {other:?}")),
    }
    let more = shell.respond(h, Resp::Http(result))?;
    c.extra_effects += more.len();
    shell.drop_request(h);
    let log = shell.log()?;
    for o in &log[before.min(log.len())..] {
        if let Outcome::Http(id, out) = o {
            if *id == job.id {
                c.outcomes.push(out.clone());
            }
        }
    }
    Ok(c)
}

fn fresh_shell(i: usize) -> Box<dyn Shell> {
    all_shells().into_iter().nth(i).unwrap()
}

fn main() {
    let args = Args::parse();
    if args.prop == "noop" {
        return;
    }
    vcommon::install_panic_hook();
    let report = Arc::new(Mutex::new(Report::new(&args.prop)));
    let wd = Watchdog::start(report.clone(), args.out.clone(), Duration::from_secs(180));
    match args.prop.as_str() {
        "C14" => c14(&args, &report, &wd),
        "C15" => c15(&args, &report, &wd),
        "C16" => caplab_c16::run(&args, &report, &wd),
        other => panic!("httplab does not serve {other}"),
    }
    report.lock().unwrap().finish(&args);
}

fn c14(args: &Args, report: &Arc<Mutex<Report>>, wd: &Watchdog) {
    let n = args.share(12_000, 8_000_000);
    let seed = args.worker_seed();
    let mut shells: Vec<Option<Box<dyn Shell>>> = (0..6).map(|_| None).collect();
    for case_no in 0..n {
        let mut rng = Rng::derive(seed, case_no, 14);
        let si = rng.usize_below(6);
        if shells[si].is_none() || case_no % 200 == 0 {
            shells[si] = Some(fresh_shell(si));
        }
        let sname = shells[si].as_ref().unwrap().name();
        let api = if supports_legacy(sname) && rng.chance(1, 2) { Api::Legacy } else { Api::Command };
        let job = gen_job(&mut rng, case_no as u32);
        wd.begin(|| json!({"lane": "httplab-c14", "shell": sname, "api": format!("{api:?}"), "job": job}).to_string());
        let res = vcommon::trap(|| {
            let ok = HttpResult::Ok(HttpResponse {
                status: 200,
                headers: vec![],
                body: vec![],
            });
            one_cycle(shells[si].as_mut().unwrap(), api, &job, ok)
        });
        wd.end();
        let mut r = report.lock().unwrap();
        r.eval();
        r.set("shells", sname);
        r.set("apis", format!("{api:?}"));
        r.set("methods", job.method.clone());
        r.set(
            "body_kinds",
            match &job.body {
                BodyJob::NoBody => "none",
                BodyJob::Bytes(_) => "bytes",
                BodyJob::Text(_) => "text",
                BodyJob::Json(_) => "json",
                BodyJob::Typed { .. } => "json(typed value)",
                BodyJob::Form(_) => "form",
                BodyJob::Reader(_) => "reader(unknown length)",
                BodyJob::SizedReader(_) => "reader(sized)",
            },
        );
        let replay = json!({"lane": "httplab-c14", "shell": sname, "api": format!("{api:?}"), "job": job});
        match res {
            Ok(Ok(c)) => {
                let mut problems = vec![];
                match &c.request {
                    None => problems.push(("request/none-emitted".to_string(), String::new())),
                    Some(req) => {
                        problems = check_request(&want_request(&job), req);
                        r.count("requests_compared", 1);
                        r.count("headers_compared", req.headers.len() as u64);
                        r.max("max_body_bytes", req.body.len() as u64);
                    }
                }
                if c.extra_effects > 0 {
                    problems.push(("request/more-than-one-effect".into(), format!("{} extra", c.extra_effects)));
                }
                if problems.is_empty() {
                    r.nontrivial(hash_json(&(&job, sname, format!("{api:?}"))));
                    r.sample(|| json!({"shell": sname, "api": format!("{api:?}"), "job": job}));
                }
                for (sig, detail) in problems {
                    r.violation(&format!("{sig}@{}", api_tag(api)), &format!("{}: {detail}", sig.replace(['/', '-'], " ")).chars().take(300).collect::<String>(), replay.clone());
                }
            }
            Ok(Err(e)) => r.violation(&format!("request/call-failed@{}", api_tag(api)), &e, replay),
            Err(p) => {
                r.violation(&format!("panic/{}", vcommon::panic_site(&p)), &format!("panic: {p}"), replay);
                shells[si] = None;
            }
        }
    }
}

fn api_tag(api: Api) -> &'static str {
    match api {
        Api::Legacy => "capability-api",
        Api::Command => "command-api",
    }
}

fn c15(args: &Args, report: &Arc<Mutex<Report>>, wd: &Watchdog) {
    let n = args.share(20_000, 3_000_000);
    let seed = args.worker_seed();
    let thorough = args.thorough();
    let mut shells: Vec<Option<Box<dyn Shell>>> = (0..6).map(|_| None).collect();
    // the status axis: every code in thorough, all of 100..=599 plus a sample in quick
    let mut statuses: Vec<u16> = if thorough {
        (0..=65535u32).map(|s| s as u16).collect()
    } else {
        let mut v: Vec<u16> = (100..=599).collect();
        v.extend_from_slice(&[0, 1, 99, 600, 601, 999, 1000, 32768, 65535]);
        v
    };
    statuses.retain(|s| (*s as u64) % args.workers == args.worker);
    // (an explicit --budget, as the sanitizer and Miri lanes pass, is not stretched to the status axis)
    let total = if args.budget.is_some() { n } else { n.max(statuses.len() as u64) };
    for case_no in 0..total {
        let mut rng = Rng::derive(seed, case_no, 15);
        let si = rng.usize_below(6);
        if shells[si].is_none() || case_no % 200 == 0 {
            shells[si] = Some(fresh_shell(si));
        }
        let sname = shells[si].as_ref().unwrap().name();
        let api = if supports_legacy(sname) && rng.chance(1, 2) { Api::Legacy } else { Api::Command };
        let expect = *rng.pick(&[ExpectJob::Bytes, ExpectJob::Text, ExpectJob::Json]);
        let job = HttpJob {
            id: case_no as u32,
            method: "GET".into(),
            url: "https://example.com/x".into(),
            headers: vec![],
            content_type: None,
            content_type_after_body: false,
            body: BodyJob::NoBody,
            query: None,
            expect,
            client_mw: vec![],
            request_mw: vec![],
            send_async: api == Api::Legacy && rng.chance(1, 4),
        };
        let status_override = statuses.get(case_no as usize).copied();
        let case = gen_result(&mut rng, status_override, expect);
        let status = match &case.result {
            HttpResult::Ok(r) => Some(r.status),
            _ => None,
        };
        let replay = json!({"lane": "httplab-c15", "shell": sname, "api": format!("{api:?}"), "expect": format!("{expect:?}"), "send_async": job.send_async,
            "result": match &case.result { HttpResult::Ok(r) => json!({"status": r.status, "headers": r.headers.iter().map(|h| (h.name.clone(), h.value.clone())).collect::<Vec<_>>(), "body_hex": r.body.iter().take(64).map(|b| format!("{b:02x}")).collect::<String>(), "body_len": r.body.len()}), HttpResult::Err(e) => json!({"error": format!("{e:?}")}) }});
        wd.begin(|| replay.to_string());
        let result = case.result.clone();
        let res = vcommon::trap(|| one_cycle(shells[si].as_mut().unwrap(), api, &job, result));
        wd.end();
        let mut r = report.lock().unwrap();
        r.eval();
        r.set("shells", sname);
        r.set("apis", format!("{api:?}{}", if job.send_async { "+send_async" } else { "" }));
        r.set("expectations", format!("{expect:?}"));
        if let Some(s) = status {
            r.count("statuses_exercised", 1);
            r.set("status_classes", format!("{}xx{}", (s / 100).min(9), if valid_status(s) { "" } else { "(not in http-types table)" }));
        }
        match res {
            Ok(Ok(c)) => {
                let mut problems = vec![];
                if c.outcomes.len() != 1 {
                    problems.push((
                        if c.outcomes.is_empty() { "result/no-outcome" } else { "result/more-than-one-outcome" }.to_string(),
                        format!("{} outcomes", c.outcomes.len()),
                    ));
                } else {
                    // the async path reads the body by hand after the status is known: it reports 4xx as a
                    // response, which is what ResponseAsync is; classification applies to `send` / command API
                    // `send_async` hands over the raw ResponseAsync: the 4xx/5xx classification is what
                    // `send` and the command API add on top, the body expectations apply to every status
                    let want = want_outcome_with(&case.result, expect, !job.send_async);
                    problems = check_outcome(&want, &c.outcomes[0]);
                    r.count("outcomes_compared", 1);
                    if let HttpOut::Ok { body: BodyOut::Text(t), .. } = &c.outcomes[0] {
                        r.count("strings_validated_utf8", 1);
                        if std::str::from_utf8(t.as_bytes()).is_err() {
                            problems.push(("result/string-is-not-valid-utf8".into(), String::new()));
                        }
                    }
                }
                if problems.is_empty() {
                    r.nontrivial(hash_json(&replay));
                    r.sample(|| replay.clone());
                }
                for (sig, detail) in problems {
                    r.violation(&format!("{sig}@{}", api_tag(api)), &format!("{}: {detail}", sig.replace(['/', '-'], " ")).chars().take(300).collect::<String>(), replay.clone());
                }
            }
            Ok(Err(e)) => r.violation(&format!("result/call-failed@{}", api_tag(api)), &e, replay),
            Err(p) => {
                // panics on responses: signatures by cause, not by API
                let bad_status = status.map(|s| !valid_status(s)).unwrap_or(false);
                let sig = if bad_status && (p.contains("StatusCode") || p.contains("status code")) {
                    "panic/status-not-in-http-types-table".to_string()
                } else if case.class == "non-ascii-header" {
                    if p.contains("valid ASCII") || p.contains("ASCII") {
                        if replay["result"]["headers"].to_string().contains("x-n\\u00e4me") || replay["result"]["headers"].to_string().contains("x-näme") {
                            "panic/header-name-non-ascii".to_string()
                        } else {
                            "panic/header-value-non-ascii".to_string()
                        }
                    } else {
                        format!("panic/{}", vcommon::panic_site(&p))
                    }
                } else if status.map(|s| !valid_status(s)).unwrap_or(false) && (p.contains("status") || p.contains("Status") || p.contains("TryFrom") || p.contains("try_from") || p.contains("Could not convert")) {
                    "panic/status-not-in-http-types-table".to_string()
                } else {
                    format!("panic/{}", vcommon::panic_site(&p))
                };
                r.violation(&sig, &format!("panic: {p}"), replay);
                shells[si] = None;
            }
        }
    }
}

mod caplab_c16 {
    use super::*;

    /// what the simulated server answers for a URL
    #[derive(Clone, Debug)]
    pub enum Answer {
        Status(u16),
        Redirect(u16, Option<String>),
        ShellError,
    }

    pub struct Graph {
        pub nodes: BTreeMap<String, Answer>,
    }

    impl Graph {
        fn answer(&self, url: &str) -> Answer {
            self.nodes.get(url).cloned().unwrap_or(Answer::Status(200))
        }
    }

    fn norm(u: &str) -> String {
        Url::parse(u).map(|u| u.to_string()).unwrap_or_else(|_| u.to_string())
    }

    fn gen_graph(rng: &mut Rng, start: &str) -> Graph {
        let mut nodes = BTreeMap::new();
        let mut cur = norm(start);
        let hops = rng.range(0, 7);
        for i in 0..hops {
            let code = *rng.pick(&[301u16, 302, 303, 307, 308]);
            let loc = match rng.below(14) {
                // every form of relative reference (RFC 3986 section 4.2 / 5.4), not only bare paths
                9 => Some(match rng.below(8) {
                    0 => format!("/rooted/{}?q={}&r=a%20b", ascii_token(rng), i),
                    1 => format!("/rooted/{}#frag{}", ascii_token(rng), i),
                    2 => format!("//net{}.example/{}", i, ascii_token(rng)),
                    3 => format!("//net{}.example:8443/{}?x=1#y", i, ascii_token(rng)),
                    4 => format!("/{}/./{}/../{}", ascii_token(rng), ascii_token(rng), ascii_token(rng)),
                    5 => format!("/?{}", ascii_token(rng)),
                    6 => format!("/{};p=1/{}?a=/b/../c", ascii_token(rng), ascii_token(rng)),
                    _ => "/".to_string(),
                }),
                10 => Some(match rng.below(6) {
                    0 => format!("?only={}", ascii_token(rng)),
                    1 => format!("{}?q=1#f", ascii_token(rng)),
                    2 => format!("../../{}/./{}", ascii_token(rng), ascii_token(rng)),
                    3 => "..".to_string(),
                    4 => format!("{}/", ascii_token(rng)),
                    _ => format!("./{}/../{}#z", ascii_token(rng), ascii_token(rng)),
                }),
                11 => Some(match rng.below(4) {
                    0 => format!("HTTPS://Upper{}.Example/{}", i, ascii_token(rng)),
                    1 => format!("http://plain{}.example", i),
                    2 => format!("https://u:p@auth{}.example:444/{}?k=v", i, ascii_token(rng)),
                    _ => format!("https://other{}.example/a b/{}", i, ascii_token(rng)),
                }),
                0 | 12 | 13 => Some(format!("https://other{}.example/abs/{}", i, ascii_token(rng))),
                1 => Some(format!("/rooted/{}", ascii_token(rng))),
                2 => Some(format!("{}/{}", ascii_token(rng), ascii_token(rng))),
                3 => Some(format!("../{}", ascii_token(rng))),
                4 => Some(format!("./{}?q={}", ascii_token(rng), i)),
                5 => Some(cur.clone()), // loop onto itself
                6 => None,              // redirect status without Location
                7 => Some("http://[::bad".to_string()),
                _ => Some(format!("{}", ascii_token(rng))),
            };
            nodes.insert(cur.clone(), Answer::Redirect(code, loc.clone()));
            let Some(loc) = loc else { break };
            let next = match Url::parse(&loc) {
                Ok(u) => u.to_string(),
                Err(url::ParseError::RelativeUrlWithoutBase) => match Url::parse(&cur).unwrap().join(&loc) {
                    Ok(u) => u.to_string(),
                    Err(_) => break,
                },
                Err(_) => break,
            };
            if next == cur {
                break;
            }
            cur = next;
        }
        // where the chain ends
        if !nodes.contains_key(&cur) {
            let end = match rng.below(6) {
                0 => Answer::Status(404),
                1 => Answer::Status(500),
                2 => Answer::Status(304),
                3 => Answer::ShellError,
                _ => Answer::Status(200),
            };
            nodes.insert(cur, end);
        }
        Graph { nodes }
    }

    const REDIRECT_CODES: [u16; 5] = [301, 302, 303, 307, 308];

    pub fn run(args: &Args, report: &Arc<Mutex<Report>>, wd: &Watchdog) {
        let n = args.share(6_000, 16_000_000);
        let seed = args.worker_seed();
        let mut shell: Option<Box<dyn Shell>> = None;
        for case_no in 0..n {
            let mut rng = Rng::derive(seed, case_no, 16);
            if shell.is_none() || case_no % 100 == 0 {
                // legacy API needs the derive app; alternate typed core and bridge
                shell = Some(fresh_shell(if rng.chance(1, 2) { 0 } else { 2 }));
            }
            let sname = shell.as_ref().unwrap().name();
            let api = if rng.chance(1, 5) { Api::Command } else { Api::Legacy };
            let start = format!("https://start.example/a/b/{}", ascii_token(&mut rng));
            let mw_kind = |rng: &mut Rng, id: u32| match rng.below(10) {
                0 => MwJob::ShortCircuit(id, *rng.pick(&[200u16, 204, 404])),
                1 => MwJob::Issue(id, format!("https://side.example/{}", id)),
                2 => MwJob::Twice(id),
                _ => MwJob::Mark(id),
            };
            let mut next_id = 1u32;
            let mut client_mw = vec![];
            let mut request_mw = vec![];
            let redirect_case = rng.chance(1, 2);
            if redirect_case {
                let attempts = *rng.pick(&[0u8, 1, 2, 3, 3, 5, 10]);
                // optionally surrounded by marks
                if rng.chance(1, 3) {
                    request_mw.push(MwJob::Mark(next_id));
                    next_id += 1;
                }
                // Redirect itself sits in the per-request stack or (capability API) in the client's
                if api == Api::Legacy && rng.chance(1, 3) {
                    client_mw.push(MwJob::Redirect(attempts));
                } else {
                    request_mw.push(MwJob::Redirect(attempts));
                }
                for _ in 0..rng.below(3) {
                    request_mw.push(MwJob::Mark(next_id));
                    next_id += 1;
                }
            } else {
                for _ in 0..rng.below(4) {
                    client_mw.push(mw_kind(&mut rng, next_id));
                    next_id += 1;
                }
                for _ in 0..rng.below(4) {
                    request_mw.push(mw_kind(&mut rng, next_id));
                    next_id += 1;
                }
            }
            if api == Api::Command {
                client_mw.clear();
            }
            let body = if rng.chance(1, 2) {
                BodyJob::Bytes(ByteBuf(b"original body".to_vec()))
            } else {
                BodyJob::NoBody
            };
            let job = HttpJob {
                id: case_no as u32,
                method: "POST".into(),
                url: start.clone(),
                headers: vec![],
                content_type: None,
                content_type_after_body: false,
                body: body.clone(),
                query: None,
                expect: ExpectJob::Bytes,
                client_mw: client_mw.clone(),
                request_mw: request_mw.clone(),
                // the capability API's async route (`send_async` / awaiting the builder) too
                send_async: api == Api::Legacy && rng.chance(1, 3),
            };
            let graph = if redirect_case { gen_graph(&mut rng, &start) } else { Graph { nodes: BTreeMap::new() } };
            let replay = json!({"lane": "httplab-c16", "shell": sname, "api": format!("{api:?}"), "job": job, "graph": graph.nodes.iter().map(|(k, v)| (k.clone(), format!("{v:?}"))).collect::<Vec<_>>()});
            wd.begin(|| replay.to_string());
            mw::take_marks();
            let res = vcommon::trap(|| serve(shell.as_mut().unwrap(), api, &job, &graph));
            wd.end();
            let marks: Vec<String> = mw::take_marks().into_iter().filter(|(j, _)| *j == job.id).map(|(_, m)| m).collect();
            let mut r = report.lock().unwrap();
            r.eval();
            r.set("apis", format!("{api:?}"));
            r.set("shells", sname);
            let (wire, outcomes) = match res {
                Ok(Ok(x)) => x,
                Ok(Err(e)) => {
                    r.violation("mw/call-failed", &e, replay);
                    continue;
                }
                Err(p) => {
                    r.violation(&format!("panic/{}", vcommon::panic_site(&p)), &format!("panic: {p}"), replay);
                    shell = None;
                    continue;
                }
            };
            let mut problems: Vec<(String, String)> = vec![];
            if outcomes.len() != 1 {
                problems.push(("mw/not-exactly-one-outcome".into(), format!("{}", outcomes.len())));
            }
            r.count("wire_requests_served", wire.len() as u64);
            if redirect_case {
                check_redirect(&job, &graph, &wire, &outcomes, &marks, &mut problems, &mut r);
            } else {
                check_marks(&job, &marks, &wire, &mut problems, &mut r);
            }
            if api == Api::Command && !request_mw.is_empty() && !problems.is_empty() {
                // known finding: the command API stores per-request middleware and never runs it.
                // Recognised by its exact symptom: no mark at all and the plain request sent once.
                let plain = wire.len() == 1 && norm(&wire[0].url) == norm(&start) && marks.is_empty();
                if plain {
                    r.violation(
                        "command-api/middleware-never-run",
                        "per-request middleware attached through the command API is never invoked",
                        replay.clone(),
                    );
                    continue;
                }
            }
            if problems.is_empty() {
                r.nontrivial(hash_json(&replay));
                r.sample(|| json!({"job": job, "marks": marks, "wire_urls": wire.iter().map(|w| w.url.clone()).collect::<Vec<_>>()}));
            }
            for (sig, detail) in problems {
                r.violation(&sig, &format!("{}: {detail}", sig.replace(['/', '-'], " ")).chars().take(400).collect::<String>(), {
                    let mut rp = replay.clone();
                    rp["marks"] = json!(marks);
                    rp["wire"] = json!(wire.iter().map(|w| (w.url.clone(), w.body.len())).collect::<Vec<_>>());
                    rp
                });
            }
        }
    }

    /// act as the server: answer every http request per the graph until nothing is outstanding
    fn serve(shell: &mut Box<dyn Shell>, api: Api, job: &HttpJob, graph: &Graph) -> Result<(Vec<HttpRequest>, Vec<HttpOut>), String> {
        let before = shell.log()?.len();
        let mut queue = shell.send(&Job::Http(api, job.clone()))?;
        let mut wire = vec![];
        let mut guard = 0;
        while let Some((h, op)) = queue.pop() {
            guard += 1;
            if guard > 200 {
                return Err("more than 200 requests for one job".into());
            }
            let Op::Http(req) = op else {
                return Err(format!("not an http request: {op:?}"));
            };
            let answer = graph.answer(&norm(&req.url));
            wire.push(req);
            let result = match answer {
                Answer::Status(s) => HttpResult::Ok(HttpResponse {
                    status: s,
                    headers: vec![],
                    body: format!("status {s}").into_bytes(),
                }),
                Answer::Redirect(s, loc) => HttpResult::Ok(HttpResponse {
                    status: s,
                    headers: loc
                        .into_iter()
                        .map(|l| HttpHeader {
                            name: "Location".into(),
                            value: l,
                        })
                        .collect(),
                    body: vec![],
                }),
                Answer::ShellError => HttpResult::Err(HttpError::Io("connection reset".into())),
            };
            let more = shell.respond(h, Resp::Http(result))?;
            shell.drop_request(h);
            queue.extend(more);
        }
        let log = shell.log()?;
        let outcomes = log[before.min(log.len())..]
            .iter()
            .filter_map(|o| match o {
                Outcome::Http(id, out) if *id == job.id => Some(out.clone()),
                _ => None,
            })
            .collect();
        Ok((wire, outcomes))
    }

    /// reference semantics of a middleware stack: the marks and the number of shell calls
    fn expected_marks(stack: &[MwJob], url: &str, marks: &mut Vec<String>, shell_calls: &mut usize, side_calls: &mut usize) {
        match stack.split_first() {
            None => *shell_calls += 1,
            Some((m, rest)) => match m {
                MwJob::Mark(id) => {
                    marks.push(format!("enter {id} {url}"));
                    expected_marks(rest, url, marks, shell_calls, side_calls);
                    marks.push(format!("exit {id}"));
                }
                MwJob::ShortCircuit(id, _) => marks.push(format!("short {id}")),
                MwJob::Issue(id, _) => {
                    marks.push(format!("enter {id} {url}"));
                    *side_calls += 1;
                    marks.push(format!("issued {id} -> 200"));
                    expected_marks(rest, url, marks, shell_calls, side_calls);
                    marks.push(format!("exit {id}"));
                }
                MwJob::Twice(id) => {
                    marks.push(format!("enter {id} {url}"));
                    expected_marks(rest, url, marks, shell_calls, side_calls);
                    // the status of the first run depends on what is below; compare loosely
                    marks.push(format!("first {id} -> *"));
                    expected_marks(rest, url, marks, shell_calls, side_calls);
                    marks.push(format!("exit {id}"));
                }
                MwJob::Redirect(_) => expected_marks(rest, url, marks, shell_calls, side_calls),
            },
        }
    }

    fn check_marks(job: &HttpJob, marks: &[String], wire: &[HttpRequest], problems: &mut Vec<(String, String)>, r: &mut Report) {
        // documented order: client middleware, then per-request middleware, then the shell
        let stack: Vec<MwJob> = job.client_mw.iter().chain(job.request_mw.iter()).cloned().collect();
        let url = norm(&job.url);
        let mut want = vec![];
        let (mut shell_calls, mut side_calls) = (0, 0);
        expected_marks(&stack, &url, &mut want, &mut shell_calls, &mut side_calls);
        r.count("middleware_stacks_compared", 1);
        r.max("max_stack_len", stack.len() as u64);
        let matches = want.len() == marks.len()
            && want.iter().zip(marks).all(|(w, g)| {
                if let Some(prefix) = w.strip_suffix('*') {
                    g.starts_with(prefix)
                } else {
                    w == g
                }
            });
        if !matches {
            problems.push(("mw/order-or-nesting-wrong".into(), format!("observed {marks:?} expected {want:?}")));
        }
        let main_calls = wire.iter().filter(|w| norm(&w.url) == url).count();
        let sides = wire.len() - main_calls;
        if main_calls != shell_calls {
            problems.push((
                "mw/shell-not-reached-once-per-run-of-the-chain".into(),
                format!("{main_calls} requests for the job's url, expected {shell_calls}"),
            ));
        }
        if sides != side_calls {
            problems.push(("mw/side-requests-differ".into(), format!("{sides} vs {side_calls}")));
        }
    }

    /// Reference walker written from the property's statement. `reprobe`: what to do with a
    /// redirect status that has no Location (not specified): probe again or stop probing.
    /// Returns the wire requests (url, carries the body) and whether the walk ends in an error.
    fn reference_walk(start: &str, graph: &Graph, attempts: usize, reprobe: bool) -> (Vec<(String, bool)>, bool) {
        let mut wire = vec![];
        let mut cur = norm(start);
        let mut probes = 0;
        while probes < attempts {
            probes += 1;
            wire.push((cur.clone(), false));
            match graph.answer(&cur) {
                Answer::ShellError => return (wire, true),
                Answer::Redirect(code, loc) if REDIRECT_CODES.contains(&code) => match loc {
                    Some(loc) => {
                        let next = match Url::parse(&loc) {
                            Ok(abs) => Some(abs.to_string()),
                            Err(url::ParseError::RelativeUrlWithoutBase) => {
                                Url::parse(&cur).unwrap().join(&loc).ok().map(|u| u.to_string())
                            }
                            Err(_) => None,
                        };
                        match next {
                            Some(n) => cur = n,
                            None => return (wire, true), // invalid Location: one error outcome
                        }
                    }
                    None => {
                        if !reprobe {
                            break;
                        }
                    }
                },
                _ => break,
            }
        }
        wire.push((cur, true));
        (wire, false)
    }

    fn check_redirect(job: &HttpJob, graph: &Graph, wire: &[HttpRequest], outcomes: &[HttpOut], marks: &[String], problems: &mut Vec<(String, String)>, r: &mut Report) {
        let attempts = job
            .client_mw
            .iter()
            .chain(job.request_mw.iter())
            .find_map(|m| if let MwJob::Redirect(n) = m { Some(*n as usize) } else { None })
            .unwrap_or(0);
        r.count("redirect_walks_compared", 1);
        let has_body = matches!(&job.body, BodyJob::Bytes(b) if !b.0.is_empty());
        let observed: Vec<(String, bool)> = wire.iter().map(|w| (norm(&w.url), !w.body.is_empty())).collect();
        let candidates = [reference_walk(&job.url, graph, attempts, true), reference_walk(&job.url, graph, attempts, false)];
        let as_observable = |c: &Vec<(String, bool)>| -> Vec<(String, bool)> { c.iter().map(|(u, b)| (u.clone(), *b && has_body)).collect() };
        let hit = candidates.iter().find(|(c, _)| as_observable(c) == observed);
        match hit {
            Some((c, ends_in_error)) => {
                r.count("redirects_followed", c.len().saturating_sub(1) as u64);
                r.max("max_probes_in_one_walk", c.len().saturating_sub(1) as u64);
                let got_error = matches!(outcomes.first(), Some(HttpOut::Err(HttpErrOut::Io(_) | HttpErrOut::Url(_))));
                if *ends_in_error && !got_error {
                    problems.push(("redirect/error-not-reported".into(), format!("{:?}", outcomes.first()).chars().take(200).collect()));
                }
                if let (false, Some((last, _))) = (*ends_in_error, c.last()) {
                    // the final request must be the original one
                    let w = wire.last().unwrap();
                    if w.method != job.method {
                        problems.push(("redirect/final-request-method-changed".into(), format!("{} vs {}", w.method, job.method)));
                    }
                    // the rest of the stack wraps the final request, once: middleware before
                    // Redirect sees the original URL, middleware after it the final URL, probes
                    // pass through neither
                    let stack: Vec<&MwJob> = job.client_mw.iter().chain(job.request_mw.iter()).collect();
                    let at = stack.iter().position(|m| matches!(m, MwJob::Redirect(_))).unwrap_or(0);
                    let mut want: Vec<String> = vec![];
                    let mut exits: Vec<String> = vec![];
                    for (i, m) in stack.iter().enumerate() {
                        if let MwJob::Mark(id) = m {
                            want.push(format!("enter {id} {}", if i < at { norm(&job.url) } else { last.clone() }));
                            exits.push(format!("exit {id}"));
                        }
                    }
                    exits.reverse();
                    want.extend(exits);
                    let got: Vec<String> = marks
                        .iter()
                        .map(|m| match m.strip_prefix("enter ") {
                            Some(rest) => match rest.split_once(' ') {
                                Some((id, url)) => format!("enter {id} {}", norm(url)),
                                None => m.clone(),
                            },
                            None => m.clone(),
                        })
                        .collect();
                    r.count("redirect_stacks_with_marks_compared", 1);
                    if got != want {
                        problems.push(("redirect/rest-of-the-stack-not-wrapped-around-the-final-request-once".into(), format!("observed {got:?} expected {want:?}")));
                    }
                }
            }
            None => {
                // say what is wrong, most specific first
                let (want, _) = &candidates[0];
                let want_o = as_observable(want);
                let followed_obs = observed.len().saturating_sub(1);
                let sig = if observed.len() > want_o.len() && observed[..want_o.len().saturating_sub(1)] == want_o[..want_o.len().saturating_sub(1)] {
                    if followed_obs > attempts {
                        "redirect/followed-more-than-the-limit"
                    } else {
                        "redirect/continued-past-the-end-of-the-walk"
                    }
                } else if let Some(i) = (0..observed.len().min(want_o.len())).find(|i| observed[*i].0 != want_o[*i].0) {
                    if i == 0 {
                        "redirect/first-request-not-to-the-original-url"
                    } else {
                        "redirect/location-resolved-against-the-wrong-url"
                    }
                } else if observed.len() < want_o.len() {
                    "redirect/stopped-early"
                } else if observed.iter().zip(&want_o).any(|(o, w)| o.1 && !w.1) {
                    "redirect/probe-carries-the-body"
                } else if observed.iter().zip(&want_o).any(|(o, w)| !o.1 && w.1) {
                    "redirect/final-request-lost-the-body"
                } else {
                    "redirect/walk-differs"
                };
                problems.push((sig.into(), format!("observed {observed:?} expected {want_o:?} (attempt limit {attempts})")));
            }
        }
    }
}
