//! C12, capability side: responses to outstanding *capability* requests (http, kv, time,
//! platform) that are well-formed for the decoder but carry boundary numbers, or are damaged
//! (truncated, extended, bit-flipped), offered through the real bridges. Oracle: the call returns
//! (Ok or Err) without panicking; afterwards the bridge still serves - another request that was
//! outstanding during the attack is answered and its outcome reaches the app, and so does a new
//! one (a panic under the registry lock would poison it for everybody).

use std::sync::{Arc, Mutex};
use std::time::Duration;

use caplab::app::*;
use caplab::drive::*;
use crux_http::protocol::{HttpHeader, HttpResponse, HttpResult};
use crux_kv::value::Value;
use crux_kv::{KeyValueResponse, KeyValueResult};
use crux_time::{TimeRequest, TimeResponse};
use serde_json::json;
use vcommon::{Args, Report, Rng, Watchdog};

const NUMBERS: [u64; 14] = [0, 1, 999_999_999, 1_000_000_000, 1_000_000_001, u32::MAX as u64, 1 << 32, i64::MAX as u64, 1 << 63, u64::MAX, u64::MAX - 1, 65_535, 65_536, 255];

fn hex(b: &[u8]) -> String {
    b.iter().take(400).map(|x| format!("{x:02x}")).collect()
}

/// panic site plus the first words of the message (numbers removed): one signature per distinct
/// way of panicking, so that a listed finding never hides another panic in the same file
fn panic_signature(p: &str) -> String {
    let msg: String = p.split(" @ ").next().unwrap_or("").lines().next().unwrap_or("").chars().filter(|c| !c.is_ascii_digit()).collect();
    let words: Vec<String> = msg
        .split(|c: char| !c.is_ascii_alphanumeric())
        .filter(|w| !w.is_empty())
        .take(7)
        .map(|w| w.to_ascii_lowercase())
        .collect();
    format!("{}/{}", vcommon::panic_site(p), words.join("-"))
}

fn valid_response(op: &Op, rng: &mut Rng) -> Option<Resp> {
    Some(match op {
        Op::Kv(_) => Resp::Kv(KeyValueResult::Ok {
            response: KeyValueResponse::Get { value: if rng.chance(1, 2) { Value::None } else { Value::Bytes(rng.bytes(5)) } },
        }),
        Op::Http(_) => Resp::Http(HttpResult::Ok(HttpResponse {
            status: 200,
            // (now and then a header the http-types fork cannot represent: listed findings of C15,
            // which are panics on a response all the same)
            headers: vec![HttpHeader { name: if rng.chance(1, 16) { "x-\u{e9}".into() } else { "x-a".into() }, value: if rng.chance(1, 16) { "\u{e9}".into() } else { "b".into() } }],
            body: b"body".to_vec(),
        })),
        Op::Platform(_) => Resp::Platform(crux_platform::PlatformResponse("plat".into())),
        Op::Time(TimeRequest::Now) => Resp::Time(TimeResponse::Now { instant: crux_time::Instant::new(rng.below(1 << 40), rng.below(1_000_000_000) as u32) }),
        Op::Time(TimeRequest::NotifyAfter { id, .. }) => Resp::Time(TimeResponse::DurationElapsed { id: *id }),
        Op::Time(TimeRequest::NotifyAt { id, .. }) => Resp::Time(TimeResponse::InstantArrived { id: *id }),
        Op::Time(TimeRequest::Clear { .. }) | Op::Render(_) => return None,
    })
}

fn encode(resp: &Resp, json_wire: bool) -> Vec<u8> {
    macro_rules! ser {
        ($x:expr) => {
            if json_wire { serde_json::to_vec($x).unwrap() } else { bopts().serialize($x).unwrap() }
        };
    }
    use bincode::Options as _;
    match resp {
        Resp::Http(x) => ser!(x),
        Resp::Kv(x) => ser!(x),
        Resp::Platform(x) => ser!(x),
        Resp::Time(x) => ser!(x),
    }
}

/// (kind, bytes)
fn attack(valid: &[u8], json_wire: bool, rng: &mut Rng) -> (&'static str, Vec<u8>) {
    let mut b = valid.to_vec();
    match rng.below(6) {
        0 | 1 => {
            // a number the decoder will accept as a number, at the place of some field
            let n = *rng.pick(&NUMBERS);
            if json_wire {
                // replace one run of digits
                let text = String::from_utf8_lossy(&b).to_string();
                let runs: Vec<(usize, usize)> = {
                    let bytes = text.as_bytes();
                    let mut v = vec![];
                    let mut i = 0;
                    while i < bytes.len() {
                        if bytes[i].is_ascii_digit() && (i == 0 || bytes[i - 1] != b'"' && !bytes[i - 1].is_ascii_alphanumeric()) {
                            let s = i;
                            while i < bytes.len() && bytes[i].is_ascii_digit() {
                                i += 1;
                            }
                            v.push((s, i));
                        } else {
                            i += 1;
                        }
                    }
                    v
                };
                if runs.is_empty() {
                    return ("unchanged", b);
                }
                let (s, e) = *rng.pick(&runs);
                let out = format!("{}{}{}", &text[..s], n, &text[e..]);
                ("boundary-number", out.into_bytes())
            } else if b.len() >= 4 {
                // bincode (fixed-width little endian here): overwrite the trailing or a random 4 / 8 bytes
                let w = if rng.chance(1, 2) && b.len() >= 8 { 8 } else { 4 };
                let at = if rng.chance(1, 2) { b.len() - w } else { rng.usize_below(b.len() - w + 1) };
                b[at..at + w].copy_from_slice(&n.to_le_bytes()[..w]);
                ("boundary-number", b)
            } else {
                ("unchanged", b)
            }
        }
        2 => {
            let keep = rng.usize_below(b.len().max(1));
            b.truncate(keep);
            ("truncated", b)
        }
        3 => {
            let extra = rng.range(1, 9) as usize;
            b.extend(rng.bytes(extra));
            ("extended", b)
        }
        4 if !b.is_empty() => {
            for _ in 0..rng.range(1, 3) {
                let i = rng.usize_below(b.len());
                b[i] ^= 1 << rng.below(8);
            }
            ("bit-flipped", b)
        }
        _ => {
            let len = rng.range(0, 24) as usize;
            ("random", rng.bytes(len))
        }
    }
}

fn raw_respond(sh: &BridgeShell<AppD>, id: u32, bytes: &[u8]) -> Result<(), String> {
    if let Some(b) = &sh.bincode {
        b.handle_response(id, bytes).map(|_| ()).map_err(|e| e.to_string())
    } else {
        let b = sh.json.as_ref().unwrap();
        let mut out = vec![];
        let mut de = serde_json::Deserializer::from_slice(bytes);
        let mut ser = serde_json::Serializer::new(&mut out);
        b.handle_response(id, &mut de, &mut ser).map(|_| ()).map_err(|e| e.to_string())
    }
}

fn main() {
    let args = Args::parse();
    if args.prop == "noop" {
        return;
    }
    vcommon::install_panic_hook();
    let report = Arc::new(Mutex::new(Report::new(&args.prop)));
    let wd = Watchdog::start(report.clone(), args.out.clone(), Duration::from_secs(120));
    KEEP_LOG.store(true, std::sync::atomic::Ordering::SeqCst);
    let n = args.share(24_000, 1_600_000);
    let seed = args.worker_seed();
    for case_no in 0..n {
        let mut rng = Rng::derive(seed, case_no, 1212);
        let json_wire = rng.chance(1, 2);
        let api = if rng.chance(1, 2) { Api::Legacy } else { Api::Command };
        let job = match rng.below(6) {
            0 => Job::Kv(api, KvJob::Get { key: "k".into() }),
            1 => Job::Time(api, TimeJob::Now),
            2 => Job::Time(api, TimeJob::NotifyAfterNanos(rng.below(1 << 30))),
            3 => Job::Time(api, TimeJob::NotifyAtSecs(rng.below(1 << 33), 7)),
            4 => Job::Platform,
            _ => Job::Http(
                api,
                HttpJob {
                    id: case_no as u32,
                    method: "GET".into(),
                    url: "https://example.com/x".into(),
                    headers: vec![],
                    content_type: None,
                    content_type_after_body: false,
                    body: BodyJob::NoBody,
                    query: None,
                    expect: *rng.pick(&[ExpectJob::Bytes, ExpectJob::Text]),
                    client_mw: vec![],
                    request_mw: vec![],
                    send_async: false,
                },
            ),
        };
        wd.begin(|| json!({"lane": "capfuzz", "wire": if json_wire { "json" } else { "bincode" }, "job": format!("{job:?}").chars().take(300).collect::<String>(), "case": case_no}).to_string());
        let res = vcommon::trap(|| -> Result<Option<(String, serde_json::Value)>, String> {
            let mut sh = BridgeShell::<AppD>::new(json_wire, "bridge");
            // a bystander request, outstanding during the attack
            let by = sh.send(&Job::Kv(Api::Command, KvJob::Exists { key: "bystander".into() }))?;
            let (by_h, _) = by.first().cloned().ok_or("no bystander request")?;
            let reqs = sh.send(&job)?;
            let Some((h, op)) = reqs.into_iter().find(|(_, op)| valid_response(op, &mut Rng::new(1)).is_some()) else {
                return Err("the job produced no answerable request".into());
            };
            let valid = encode(&valid_response(&op, &mut rng).unwrap(), json_wire);
            let (kind, bytes) = attack(&valid, json_wire, &mut rng);
            let before = sh.log()?.len();
            let attacked = vcommon::trap(|| raw_respond(&sh, h as u32, &bytes));
            let detail = json!({"mutation": kind, "operation": format!("{op:?}").chars().take(120).collect::<String>(), "bytes_hex": hex(&bytes), "valid_hex": hex(&valid)});
            if let Err(p) = attacked {
                return Ok(Some((format!("panic-on-response/{}", panic_signature(&p)), json!({"panic": p, "detail": detail}))));
            }
            // the bystander is answered and its outcome arrives
            let mid = sh.log()?.len();
            if mid > before + 1 {
                return Ok(Some(("response/more-than-one-outcome".into(), detail)));
            }
            let r = vcommon::trap(|| sh.respond(by_h, Resp::Kv(KeyValueResult::Ok { response: KeyValueResponse::Exists { is_present: true } })));
            match r {
                Err(p) => return Ok(Some((format!("bystander-panicked-after-bad-response/{}", vcommon::panic_site(&p)), json!({"panic": p, "detail": detail})))),
                Ok(Err(e)) => return Ok(Some(("bystander-rejected-after-bad-response".into(), json!({"error": e, "detail": detail})))),
                Ok(Ok(_)) => {}
            }
            let log = sh.log()?;
            if !log.iter().any(|o| matches!(o, Outcome::Kv(KvOut::Exists(true)))) {
                return Ok(Some(("bystander-outcome-lost-after-bad-response".into(), detail)));
            }
            // and a new request works
            let fresh = vcommon::trap(|| sh.send(&Job::Platform));
            match fresh {
                Err(p) => return Ok(Some((format!("next-event-panicked-after-bad-response/{}", vcommon::panic_site(&p)), json!({"panic": p, "detail": detail})))),
                Ok(Err(e)) => return Ok(Some(("next-event-failed-after-bad-response".into(), json!({"error": e, "detail": detail})))),
                Ok(Ok(v)) if v.is_empty() => return Ok(Some(("next-event-produced-no-request-after-bad-response".into(), detail))),
                Ok(Ok(_)) => {}
            }
            Ok(None).map(|x: Option<(String, serde_json::Value)>| {
                let _ = kind;
                x
            })
        });
        wd.end();
        let mut r = report.lock().unwrap();
        r.eval();
        r.set("wires", if json_wire { "json" } else { "bincode" });
        r.set(
            "operations",
            match &job {
                Job::Kv(..) => "kv",
                Job::Time(_, TimeJob::Now) => "time-now",
                Job::Time(..) => "timer",
                Job::Platform => "platform",
                _ => "http",
            },
        );
        match res {
            Ok(Ok(None)) => {
                r.count("responses_offered", 1);
                r.nontrivial(vcommon::hash_mix(seed, case_no));
            }
            Ok(Ok(Some((sig, detail)))) => r.violation(&sig, &sig.replace(['/', '-'], " "), json!({"lane": "capfuzz", "wire": if json_wire { "json" } else { "bincode" }, "job": format!("{job:?}").chars().take(300).collect::<String>(), "detail": detail})),
            Ok(Err(e)) => r.violation("capfuzz/setup-failed", &e, json!({"lane": "capfuzz", "job": format!("{job:?}").chars().take(300).collect::<String>()})),
            Err(p) => r.violation(&format!("panic/{}", vcommon::panic_site(&p)), &format!("panic: {p}"), json!({"lane": "capfuzz", "job": format!("{job:?}").chars().take(300).collect::<String>()})),
        }
    }
    report.lock().unwrap().finish(&args);
}
