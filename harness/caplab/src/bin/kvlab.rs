//! C17: key-value operations and results pass through unaltered (identity oracle), for the
//! capability API, the command API and the serialized bridges.

use std::sync::{Arc, Mutex};
use std::time::Duration;

use caplab::app::*;
use caplab::drive::*;
use crux_kv::error::KeyValueError;
use crux_kv::value::Value;
use crux_kv::{KeyValueOperation, KeyValueResponse, KeyValueResult};
use serde_json::json;
use vcommon::{hash_json, Args, Report, Rng, Watchdog};

fn string(rng: &mut Rng, big: bool) -> String {
    match rng.below(10) {
        0 => String::new(),
        1 => "\u{0}".into(),
        2 => "kéy/\u{1F980}/\u{202e}rtl".into(),
        3 if big => "k".repeat(rng.range(10_000, 1_000_000) as usize),
        3 => "k".repeat(rng.range(100, 5000) as usize),
        4 => " leading and trailing ".into(),
        _ => {
            let n = rng.range(1, 24) as usize;
            (0..n)
                .map(|_| match rng.below(4) {
                    0 => char::from_u32(rng.range(0x20, 0x7e) as u32).unwrap(),
                    1 => char::from_u32(rng.range(0xa0, 0x7ff) as u32).unwrap(),
                    2 => char::from_u32(rng.range(0x4e00, 0x9fff) as u32).unwrap(),
                    _ => char::from_u32(rng.range(0x1f300, 0x1f5ff) as u32).unwrap(),
                })
                .collect()
        }
    }
}

fn bytes(rng: &mut Rng, big: bool) -> Vec<u8> {
    let n = match rng.below(8) {
        0 => 0,
        1 => 1,
        // (around and above 1 MiB: a message size a transport limit would be set at)
        2 if big => (if rng.chance(1, 2) { rng.range(100_000, 1_048_576) } else { rng.range(1_048_000, 2_200_000) }) as usize,
        2 => rng.range(1000, 20_000) as usize,
        _ => rng.range(2, 64) as usize,
    };
    match rng.below(4) {
        0 => vec![0u8; n],
        1 => vec![0xff; n],
        _ => rng.bytes(n),
    }
}

fn cursor(rng: &mut Rng) -> u64 {
    *rng.pick(&[0u64, 1, 2, u64::MAX, u64::MAX - 1, 1 << 63, 1 << 32, 4096, 77])
}

fn error(rng: &mut Rng) -> KeyValueError {
    match rng.below(4) {
        0 => KeyValueError::Io {
            message: string(rng, false),
        },
        1 => KeyValueError::Timeout,
        2 => KeyValueError::CursorNotFound,
        _ => KeyValueError::Other {
            message: string(rng, false),
        },
    }
}

fn value(rng: &mut Rng, big: bool) -> Value {
    match rng.below(4) {
        0 => Value::None,
        1 => Value::Bytes(vec![]),
        _ => Value::Bytes(bytes(rng, big)),
    }
}

fn opt(v: &Value) -> Option<ByteBuf> {
    match v {
        Value::None => None,
        Value::Bytes(b) => Some(ByteBuf(b.clone())),
    }
}

fn main() {
    let args = Args::parse();
    if args.prop == "noop" {
        return;
    }
    vcommon::install_panic_hook();
    let report = Arc::new(Mutex::new(Report::new(&args.prop)));
    let wd = Watchdog::start(report.clone(), args.out.clone(), Duration::from_secs(120));
    let n = args.share(8_000, 2_000_000);
    let seed = args.worker_seed();
    let mut shells = all_shells();
    for case_no in 0..n {
        // the app's log (read back after every case) grows with the history: start afresh regularly
        if case_no > 0 && case_no % 400 == 0 {
            shells = all_shells();
        }
        let mut rng = Rng::derive(seed, case_no, 17);
        // (a payload of a megabyte costs ~0.3 s over the JSON bridge: rarer in the long tier)
        let big = rng.chance(1, if args.thorough() { 600 } else { 50 });
        let job = match rng.below(5) {
            0 => KvJob::Get { key: string(&mut rng, big) },
            1 => KvJob::Set {
                key: string(&mut rng, false),
                value: ByteBuf(bytes(&mut rng, big)),
            },
            2 => KvJob::Delete { key: string(&mut rng, big) },
            3 => KvJob::Exists { key: string(&mut rng, big) },
            _ => KvJob::ListKeys {
                prefix: string(&mut rng, big),
                cursor: cursor(&mut rng),
            },
        };
        // what the shell must see, and what it answers
        let want_op = match &job {
            KvJob::Get { key } => KeyValueOperation::Get { key: key.clone() },
            KvJob::Set { key, value } => KeyValueOperation::Set {
                key: key.clone(),
                value: value.0.clone(),
            },
            KvJob::Delete { key } => KeyValueOperation::Delete { key: key.clone() },
            KvJob::Exists { key } => KeyValueOperation::Exists { key: key.clone() },
            KvJob::ListKeys { prefix, cursor } => KeyValueOperation::ListKeys {
                prefix: prefix.clone(),
                cursor: *cursor,
            },
        };
        let (answer, want_out) = if rng.chance(1, 4) {
            let e = error(&mut rng);
            (KeyValueResult::Err { error: e.clone() }, KvOut::Err(e.into()))
        } else {
            match &job {
                KvJob::Get { .. } => {
                    let v = value(&mut rng, big);
                    (
                        KeyValueResult::Ok {
                            response: KeyValueResponse::Get { value: v.clone() },
                        },
                        KvOut::Data(opt(&v)),
                    )
                }
                KvJob::Set { .. } => {
                    let v = value(&mut rng, big);
                    (
                        KeyValueResult::Ok {
                            response: KeyValueResponse::Set { previous: v.clone() },
                        },
                        KvOut::Data(opt(&v)),
                    )
                }
                KvJob::Delete { .. } => {
                    let v = value(&mut rng, big);
                    (
                        KeyValueResult::Ok {
                            response: KeyValueResponse::Delete { previous: v.clone() },
                        },
                        KvOut::Data(opt(&v)),
                    )
                }
                KvJob::Exists { .. } => {
                    let b = rng.chance(1, 2);
                    (
                        KeyValueResult::Ok {
                            response: KeyValueResponse::Exists { is_present: b },
                        },
                        KvOut::Exists(b),
                    )
                }
                KvJob::ListKeys { .. } => {
                    let keys: Vec<String> = (0..rng.below(6)).map(|_| string(&mut rng, false)).collect();
                    let c = cursor(&mut rng);
                    (
                        KeyValueResult::Ok {
                            response: KeyValueResponse::ListKeys {
                                keys: keys.clone(),
                                next_cursor: c,
                            },
                        },
                        KvOut::Keys(keys, c),
                    )
                }
            }
        };
        let shell_idx = rng.usize_below(shells.len());
        let legacy_ok = supports_legacy(shells[shell_idx].name());
        let api = if legacy_ok && rng.chance(1, 2) { Api::Legacy } else { Api::Command };
        let full = Job::Kv(api, job.clone());
        let sname = shells[shell_idx].name();
        // the capability API has a callback flavour and an async flavour (awaited in a task
        // spawned through Compose; in one case in three probed once without blocking first)
        let flavour: u8 = if api == Api::Legacy { Rng::derive(seed, case_no, 1717).below(3) as u8 } else { 0 };
        caplab::app::KV_LEGACY_FLAVOUR.store(flavour, std::sync::atomic::Ordering::SeqCst);
        let flavour_name = ["callback", "async", "async-probed-first"][flavour as usize];
        wd.begin(|| json!({"lane": "kvlab", "shell": sname, "capability_api_flavour": flavour_name, "job": format!("{full:?}").chars().take(2000).collect::<String>()}).to_string());
        let res = vcommon::trap(|| {
            let shell = &mut shells[shell_idx];
            let before = shell.log()?.len();
            let effects = shell.send(&full)?;
            let mut problems: Vec<(String, serde_json::Value)> = vec![];
            if effects.len() != 1 {
                problems.push((
                    "kv/not-exactly-one-operation".into(),
                    json!({"effects": effects.len()}),
                ));
                return Ok::<_, String>(problems);
            }
            let (h, op) = &effects[0];
            match op {
                Op::Kv(got) if *got == want_op => {}
                other => problems.push((
                    "kv/operation-altered".into(),
                    json!({"wanted": format!("{want_op:?}").chars().take(300).collect::<String>(), "got": format!("{other:?}").chars().take(300).collect::<String>()}),
                )),
            }
            let more = shell.respond(*h, Resp::Kv(answer.clone()))?;
            if !more.is_empty() {
                problems.push(("kv/unexpected-follow-up-effects".into(), json!({"count": more.len()})));
            }
            let log = shell.log()?;
            if log.len() != before + 1 {
                problems.push((
                    "kv/not-exactly-one-outcome".into(),
                    json!({"before": before, "after": log.len()}),
                ));
            } else if log[before] != Outcome::Kv(want_out.clone()) {
                problems.push((
                    "kv/result-altered".into(),
                    json!({"wanted": format!("{want_out:?}").chars().take(300).collect::<String>(), "got": format!("{:?}", log[before]).chars().take(300).collect::<String>()}),
                ));
            }
            shell.drop_request(*h);
            Ok(problems)
        });
        wd.end();
        let mut r = report.lock().unwrap();
        r.eval();
        r.set("shells", sname);
        r.set("apis", format!("{api:?}"));
        if api == Api::Legacy {
            r.set("capability_api_flavours", flavour_name);
        }
        r.set(
            "operations",
            match &job {
                KvJob::Get { .. } => "Get",
                KvJob::Set { .. } => "Set",
                KvJob::Delete { .. } => "Delete",
                KvJob::Exists { .. } => "Exists",
                KvJob::ListKeys { .. } => "ListKeys",
            },
        );
        r.set(
            "answers",
            match &answer {
                KeyValueResult::Err { error } => format!("Err::{}", format!("{error:?}").split([' ', '{']).next().unwrap_or("")),
                KeyValueResult::Ok { response } => match response {
                    KeyValueResponse::Get { value } | KeyValueResponse::Set { previous: value } | KeyValueResponse::Delete { previous: value } => match value {
                        Value::None => "absent".to_string(),
                        Value::Bytes(b) if b.is_empty() => "present-empty".to_string(),
                        Value::Bytes(_) => "present".to_string(),
                    },
                    KeyValueResponse::Exists { .. } => "exists".to_string(),
                    KeyValueResponse::ListKeys { .. } => "keys".to_string(),
                },
            },
        );
        if big {
            r.count("large_payload_cases", 1);
        }
        match res {
            Ok(Ok(problems)) => {
                if problems.is_empty() {
                    r.nontrivial(hash_json(&(&full_hashable(&job), sname, format!("{answer:?}"))));
                    r.count("operations_checked", 1);
                    r.count("results_checked", 1);
                    r.sample(|| json!({"shell": sname, "api": format!("{api:?}"), "job": format!("{job:?}").chars().take(200).collect::<String>(), "answer": format!("{answer:?}").chars().take(200).collect::<String>()}));
                }
                for (sig, detail) in problems {
                    r.violation(
                        &format!("{sig}@{sname}"),
                        &sig.replace(['/', '-'], " "),
                        json!({"lane": "kvlab", "shell": sname, "api": format!("{api:?}"), "capability_api_flavour": flavour_name, "job": format!("{job:?}").chars().take(1000).collect::<String>(), "detail": detail}),
                    );
                }
            }
            Ok(Err(e)) => r.violation(
                &format!("kv/call-failed@{sname}"),
                "a core / bridge call failed",
                json!({"lane": "kvlab", "shell": sname, "error": e, "job": format!("{job:?}").chars().take(1000).collect::<String>()}),
            ),
            Err(p) => {
                r.violation(
                    &format!("panic/{}", vcommon::panic_site(&p)),
                    &format!("panic: {p}"),
                    json!({"lane": "kvlab", "shell": sname, "job": format!("{job:?}").chars().take(1000).collect::<String>()}),
                );
                // the shell's core may be poisoned: start over
                drop(r);
                shells = all_shells();
            }
        }
    }
    report.lock().unwrap().finish(&args);
}

fn full_hashable(job: &KvJob) -> String {
    format!("{job:?}")
}
