//! C18: every timer has a unique id and at most one outcome (exhaustive action sequences for
//! one timer, random interleavings for several, legacy clear) and
//! C19: time values convert exactly or are rejected explicitly (exact integer arithmetic).

use std::collections::HashSet;
use std::sync::{Arc, Mutex};
use std::time::{Duration as StdDuration, SystemTime};

use chrono::{DateTime, TimeDelta, Utc};
use crux_core::macros::effect;
use crux_core::{Command, Request};
use crux_time::command::{Time, TimerHandle, TimerOutcome};
use crux_time::{TimeRequest, TimeResponse, TimerId};
use serde_json::json;
use vcommon::{hash_json, Args, Report, Rng, Watchdog};

#[effect]
pub enum Effect {
    Time(TimeRequest),
}

#[derive(Debug, Clone, PartialEq, Eq)]
enum Ev {
    Outcome(usize, bool), // (timer index, completed?)
}

// ---------------------------------------------------------------------------
// C18: one timer, every action sequence
// ---------------------------------------------------------------------------

#[derive(Clone, Copy, Debug, PartialEq, Eq, serde::Serialize)]
enum Act {
    Poll,
    Fire,
    Clear,
    DropHandle,
    DropRequest,
    AnswerClear,
    DropClearRequest,
}

const ACTS: [Act; 7] = [
    Act::Poll,
    Act::Fire,
    Act::Clear,
    Act::DropHandle,
    Act::DropRequest,
    Act::AnswerClear,
    Act::DropClearRequest,
];

/// Reference automaton for one timer
#[derive(Clone, Debug, PartialEq, Eq)]
enum Phase {
    NotStarted,
    Pending,
    ClearPending,
    Done,
}

#[derive(Clone, Debug)]
struct Expect {
    phase: Phase,
    handle_held: bool,
    clear_signalled: bool,
    request_outstanding: bool, // emitted, not dropped by the shell
    request_answered: bool,
    answer_waiting: bool, // answered while the timer task has not run since
    clear_req_outstanding: bool,
    clear_req_answered: bool,
    clear_answer_waiting: bool,
    // totals
    timer_requests: usize,
    clear_requests: usize,
    outcome: Option<bool>, // Some(true) = completed
}

impl Expect {
    fn new() -> Self {
        Expect {
            phase: Phase::NotStarted,
            handle_held: true,
            clear_signalled: false,
            request_outstanding: false,
            request_answered: false,
            answer_waiting: false,
            clear_req_outstanding: false,
            clear_req_answered: false,
            clear_answer_waiting: false,
            timer_requests: 0,
            clear_requests: 0,
            outcome: None,
        }
    }

    /// returns (new timer requests, new clear requests, new outcome) expected from this action
    fn step(&mut self, a: Act) -> (usize, usize, Option<bool>) {
        let mut out = (0, 0, None);
        match a {
            Act::Clear => {
                if self.handle_held {
                    self.handle_held = false;
                    self.clear_signalled = true;
                }
            }
            Act::DropHandle => self.handle_held = false,
            Act::Fire => {
                if self.request_outstanding && !self.request_answered {
                    self.request_answered = true;
                    if self.phase == Phase::Pending {
                        self.answer_waiting = true;
                    }
                }
            }
            Act::DropRequest => self.request_outstanding = false,
            Act::AnswerClear => {
                if self.clear_req_outstanding && !self.clear_req_answered {
                    self.clear_req_answered = true;
                    if self.phase == Phase::ClearPending {
                        self.clear_answer_waiting = true;
                    }
                }
            }
            Act::DropClearRequest => self.clear_req_outstanding = false,
            Act::Poll => loop {
                match self.phase {
                    Phase::NotStarted => {
                        if self.clear_signalled {
                            // cleared before it was ever requested: nothing goes to the shell
                            self.phase = Phase::Done;
                            self.outcome = Some(false);
                            out.2 = Some(false);
                        } else {
                            self.phase = Phase::Pending;
                            self.request_outstanding = true;
                            self.timer_requests += 1;
                            out.0 += 1;
                        }
                        break;
                    }
                    Phase::Pending => {
                        if self.answer_waiting {
                            // the shell's answer was already waiting: completed, no clear
                            self.phase = Phase::Done;
                            self.outcome = Some(true);
                            out.2 = Some(true);
                        } else if self.clear_signalled {
                            self.phase = Phase::ClearPending;
                            self.clear_req_outstanding = true;
                            self.clear_requests += 1;
                            out.1 += 1;
                        }
                        break;
                    }
                    Phase::ClearPending => {
                        if self.clear_answer_waiting {
                            self.phase = Phase::Done;
                            self.outcome = Some(false);
                            out.2 = Some(false);
                        }
                        break;
                    }
                    Phase::Done => break,
                }
            },
        }
        out
    }
}

struct Timer {
    cmd: Command<Effect, Ev>,
    handle: Option<TimerHandle>,
    request: Option<Request<TimeRequest>>,
    clear_request: Option<Request<TimeRequest>>,
    id: Option<TimerId>,
    after: bool,
}

fn new_timer(after: bool, idx: usize) -> Timer {
    new_timer_built(after, idx, 0)
}

thread_local! {
    /// boundary values: a zero duration / the epoch itself instead of the usual 300 ms / 2023
    static ZERO_TIME: std::cell::Cell<bool> = const { std::cell::Cell::new(false) };
}

/// `built`: 0 = builder chain (`then_send`); 1 = the timer future is created by `into_future`
/// when the command is constructed and only awaited when the task first runs (a gap between
/// creating and first polling the future in which the handle can be used)
fn new_timer_built(after: bool, idx: usize, built: u8) -> Timer {
    let outcome = move |o: TimerOutcome| Ev::Outcome(idx, matches!(o, TimerOutcome::Completed(_)));
    let (cmd, handle) = if after {
        let (b, h) = Time::notify_after(if ZERO_TIME.with(|z| z.get()) { StdDuration::ZERO } else { StdDuration::from_millis(300) });
        let cmd = if built == 0 {
            b.then_send(outcome)
        } else {
            Command::new(move |ctx| {
                let fut = b.into_future(ctx.clone());
                async move {
                    let o = fut.await;
                    ctx.send_event(outcome(o));
                }
            })
        };
        (cmd, h)
    } else {
        let (b, h) = Time::notify_at(SystemTime::UNIX_EPOCH + if ZERO_TIME.with(|z| z.get()) { StdDuration::ZERO } else { StdDuration::from_secs(1_700_000_000) });
        let cmd = if built == 0 {
            b.then_send(outcome)
        } else {
            Command::new(move |ctx| {
                let fut = b.into_future(ctx.clone());
                async move {
                    let o = fut.await;
                    ctx.send_event(outcome(o));
                }
            })
        };
        (cmd, h)
    };
    Timer {
        cmd,
        handle: Some(handle),
        request: None,
        clear_request: None,
        id: None,
        after,
    }
}

/// apply one action to the real timer; returns (timer requests, clear requests, outcomes) seen
fn apply(t: &mut Timer, a: Act, problems: &mut Vec<String>) -> (usize, usize, Vec<bool>) {
    let mut seen = (0, 0, vec![]);
    match a {
        Act::Clear => {
            if let Some(h) = t.handle.take() {
                h.clear();
            }
        }
        Act::DropHandle => drop(t.handle.take()),
        Act::Fire => {
            if let (Some(r), Some(id)) = (t.request.as_mut(), t.id) {
                let resp = if t.after {
                    TimeResponse::DurationElapsed { id }
                } else {
                    TimeResponse::InstantArrived { id }
                };
                let _ = r.resolve(resp);
            }
        }
        Act::DropRequest => drop(t.request.take()),
        Act::AnswerClear => {
            if let (Some(r), Some(id)) = (t.clear_request.as_mut(), t.id) {
                let _ = r.resolve(TimeResponse::Cleared { id });
            }
        }
        Act::DropClearRequest => drop(t.clear_request.take()),
        Act::Poll => {
            let effects: Vec<Effect> = t.cmd.effects().collect();
            for e in effects {
                let Effect::Time(r) = e;
                match r.operation.clone() {
                    TimeRequest::NotifyAfter { id, .. } | TimeRequest::NotifyAt { id, .. } => {
                        seen.0 += 1;
                        if t.id.is_some() && t.id != Some(id) {
                            problems.push("one timer used two ids".into());
                        }
                        t.id = Some(id);
                        t.request = Some(r);
                    }
                    TimeRequest::Clear { id } => {
                        seen.1 += 1;
                        if t.id != Some(id) {
                            problems.push(format!("clear request for id {id:?}, the timer's id is {:?}", t.id));
                        }
                        t.clear_request = Some(r);
                    }
                    TimeRequest::Now => problems.push("unexpected Now request".into()),
                }
            }
            for ev in t.cmd.events().collect::<Vec<_>>() {
                let Ev::Outcome(_, completed) = ev;
                seen.2.push(completed);
            }
        }
    }
    seen
}

fn run_sequence(seq: &[Act], after: bool, built: u8, ids: &mut HashSet<usize>) -> Result<(String, Option<bool>), (String, String)> {
    let mut t = new_timer_built(after, 0, built);
    let mut exp = Expect::new();
    let mut problems = vec![];
    for (i, a) in seq.iter().enumerate() {
        let want = exp.step(*a);
        let got = apply(&mut t, *a, &mut problems);
        if let Some(p) = problems.first() {
            return Err(("timer/inconsistent-ids".into(), format!("step {i}: {p}")));
        }
        if got.0 != want.0 {
            let sig = if got.0 > want.0 {
                if exp.clear_signalled && exp.timer_requests == 0 {
                    "timer/request-sent-although-cleared-before-start"
                } else {
                    "timer/unexpected-timer-request"
                }
            } else {
                "timer/missing-timer-request"
            };
            return Err((sig.into(), format!("step {i} ({a:?}): {} timer request(s), expected {}", got.0, want.0)));
        }
        if got.1 != want.1 {
            let sig = if got.1 > want.1 {
                "timer/unexpected-clear-request"
            } else {
                "timer/missing-clear-request"
            };
            return Err((sig.into(), format!("step {i} ({a:?}): {} clear request(s), expected {}", got.1, want.1)));
        }
        let want_outcomes: Vec<bool> = want.2.into_iter().collect();
        if got.2 != want_outcomes {
            let sig = if got.2.len() > 1 || (got.2.len() == 1 && exp.outcome.is_some() && want_outcomes.is_empty()) {
                "timer/second-outcome"
            } else if got.2.len() > want_outcomes.len() {
                match got.2[0] {
                    true if !exp.request_answered => "timer/completed-without-shell-answer",
                    false if !exp.clear_signalled => "timer/cleared-without-app-clear",
                    _ => "timer/outcome-too-early",
                }
            } else if got.2.len() < want_outcomes.len() {
                "timer/outcome-missing"
            } else {
                "timer/wrong-outcome"
            };
            return Err((sig.into(), format!("step {i} ({a:?}): outcomes {:?}, expected {:?}", got.2, want_outcomes)));
        }
    }
    if let Some(id) = t.id {
        if !ids.insert(id.0) {
            return Err(("timer/id-reused".into(), format!("timer id {} was handed out twice", id.0)));
        }
    }
    let class = format!("{:?}/{:?}/req{}clr{}", exp.phase, exp.outcome, exp.timer_requests, exp.clear_requests);
    Ok((class, exp.outcome))
}

fn c18(args: &Args, report: &Arc<Mutex<Report>>, wd: &Watchdog) {
    let max_len = args.extra_u64("len", if args.thorough() { 8 } else { 6 }) as usize;
    let mut ids: HashSet<usize> = HashSet::new();
    // shard the exhaustive enumeration by the first action(s)
    let mut total = 0u64;
    for len in 0..=max_len {
        let count = 7u64.pow(len as u32);
        for n in 0..count {
            if n % args.workers != args.worker {
                continue;
            }
            let mut seq = Vec::with_capacity(len);
            let mut x = n;
            for _ in 0..len {
                seq.push(ACTS[(x % 7) as usize]);
                x /= 7;
            }
            for (after, built, zero) in [(true, 0u8, false), (false, 0, false), (true, 1, false), (false, 1, false), (true, 0, true), (false, 0, true)] {
                ZERO_TIME.with(|z| z.set(zero));
                total += 1;
                if total % 4096 == 1 {
                    wd.begin(|| json!({"lane": "timelab", "sequence": seq, "notify_after": after, "built": built}).to_string());
                }
                let res = vcommon::trap(|| run_sequence(&seq, after, built, &mut ids));
                let mut r = report.lock().unwrap();
                r.eval();
                match res {
                    Ok(Ok((class, outcome))) => {
                        r.set("end_classes", class);
                        if seq.len() >= 2 {
                            r.nontrivial(hash_json(&(&seq, after, built, zero)));
                        }
                        r.set("timer_constructions", if built == 0 { "builder.then_send" } else { "into_future at construction, awaited in the task" });
                        match outcome {
                            Some(true) => r.count("sequences_ending_completed", 1),
                            Some(false) => r.count("sequences_ending_cleared", 1),
                            None => r.count("sequences_without_outcome", 1),
                        }
                        if total % 50_000 == 7 {
                            r.sample(|| json!({"sequence": seq, "notify_after": after, "outcome": outcome}));
                        }
                    }
                    Ok(Err((sig, what))) => r.violation(
                        &sig,
                        &what,
                        json!({"lane": "timelab", "sequence": seq, "notify_after": after, "built": built, "zero_duration_or_epoch": zero, "what": what}),
                    ),
                    Err(p) => r.violation(
                        &format!("panic/{}", vcommon::panic_site(&p)),
                        &format!("panic in a timer sequence: {p}"),
                        json!({"lane": "timelab", "sequence": seq, "notify_after": after}),
                    ),
                }
            }
        }
    }
    wd.end();
    ZERO_TIME.with(|z| z.set(false));
    {
        let mut r = report.lock().unwrap();
        r.count("single_timer_sequences", total);
        r.max("max_sequence_length", max_len as u64);
        r.exhaustive = Some(true);
    }

    // ---- several timers at once, random interleavings --------------------------------------
    let n = args.share(4_000, 400_000);
    let seed = args.worker_seed();
    for case_no in 0..n {
        let mut rng = Rng::derive(seed, case_no, 18);
        let k = rng.range(2, 5) as usize;
        let steps = rng.range(4, 30) as usize;
        let script: Vec<(usize, Act)> = (0..steps)
            .map(|_| (rng.usize_below(k), ACTS[rng.usize_below(7)]))
            .collect();
        let kinds: Vec<bool> = (0..k).map(|_| rng.chance(1, 2)).collect();
        wd.begin(|| json!({"lane": "timelab", "timers": k, "script": script}).to_string());
        let res = vcommon::trap(|| multi_timer(&kinds, &script, &mut ids));
        wd.end();
        let mut r = report.lock().unwrap();
        r.eval();
        r.count("multi_timer_runs", 1);
        match res {
            Ok(Ok(outcomes)) => {
                r.nontrivial(hash_json(&(&kinds, &script)));
                r.count("multi_timer_outcomes", outcomes as u64);
            }
            Ok(Err((sig, what))) => r.violation(&sig, &what, json!({"lane": "timelab", "timers": kinds, "script": script, "what": what})),
            Err(p) => r.violation(
                &format!("panic/{}", vcommon::panic_site(&p)),
                &format!("panic with several timers: {p}"),
                json!({"lane": "timelab", "timers": kinds, "script": script}),
            ),
        }
    }

    // ---- legacy capability API: ids shared with the command API, clear semantics -------------------
    if args.worker == 0 {
        legacy_timers(report, wd, &mut ids);
    }

    // ---- ids handed out concurrently are unique ----------------------------------------------
    let per_thread = if args.thorough() { 20_000 } else { 2_000 };
    let collected: Vec<Vec<usize>> = std::thread::scope(|s| {
        (0..4)
            .map(|_| {
                s.spawn(move || {
                    let mut v = vec![];
                    for i in 0..per_thread {
                        let mut t = new_timer(i % 2 == 0, 0);
                        let mut p = vec![];
                        apply(&mut t, Act::Poll, &mut p);
                        if let Some(id) = t.id {
                            v.push(id.0);
                        }
                    }
                    v
                })
            })
            .collect::<Vec<_>>()
            .into_iter()
            .map(|h| h.join().unwrap())
            .collect()
    });
    let mut r = report.lock().unwrap();
    for v in collected {
        for id in v {
            r.count("ids_from_concurrent_threads", 1);
            if !ids.insert(id) {
                r.violation(
                    "timer/id-reused",
                    "two timers got the same id (across threads)",
                    json!({"lane": "timelab", "id": id}),
                );
            }
        }
    }
    r.count("distinct_timer_ids_seen", ids.len() as u64);
}

/// Legacy API: every sequence of {clear, shell fires} up to length 4 after starting a timer, for
/// notify_after and notify_at: unique ids (in the same ledger as the command API's), exactly one
/// Clear notification per clear call, at most one outcome, completed only if answered and not
/// cleared before, cleared only if cleared.
fn legacy_timers(report: &Arc<Mutex<Report>>, wd: &Watchdog, ids: &mut HashSet<usize>) {
    use caplab::app::{Api, Job, Outcome, TimeJob, TimeOut};
    use caplab::drive::{Op, Resp, Shell, TypedShell};
    wd.begin(|| json!({"lane": "timelab-legacy"}).to_string());
    let mut shell = TypedShell::<caplab::app::AppD>::new("Core(derive)");
    for len in 0..=4u32 {
        for code in 0..(1u32 << len) {
            for after in [true, false] {
                let seq: Vec<bool> = (0..len).map(|i| code & (1 << i) != 0).collect(); // true = clear, false = fire
                let res = vcommon::trap(|| -> Result<(), (String, String)> {
                    let before = shell.log().map_err(|e| ("legacy/call-failed".to_string(), e))?.len();
                    let job = if after { TimeJob::NotifyAfterNanos(5) } else { TimeJob::NotifyAtSecs(1_700_000_000, 0) };
                    let reqs = shell.send(&Job::Time(Api::Legacy, job)).map_err(|e| ("legacy/call-failed".to_string(), e))?;
                    let (h, id) = match &reqs[..] {
                        [(h, Op::Time(TimeRequest::NotifyAfter { id, .. }))] | [(h, Op::Time(TimeRequest::NotifyAt { id, .. }))] => (*h, *id),
                        other => return Err(("legacy/not-exactly-one-timer-request".into(), format!("{other:?}"))),
                    };
                    if !ids.insert(id.0) {
                        return Err(("timer/id-reused".into(), format!("legacy timer got id {} which another timer in this process has", id.0)));
                    }
                    let mut cleared = false;
                    let mut answered = false;
                    let mut expect: Option<bool> = None; // Some(true) = completed
                    for is_clear in &seq {
                        if *is_clear {
                            let e = shell.send(&Job::Time(Api::Legacy, TimeJob::Clear(id.0 as u64))).map_err(|e| ("legacy/call-failed".to_string(), e))?;
                            let clears = e.iter().filter(|(_, op)| matches!(op, Op::Time(TimeRequest::Clear { id: c }) if *c == id)).count();
                            if clears != 1 || e.len() != 1 {
                                return Err(("legacy/not-exactly-one-clear-notification".into(), format!("{e:?}")));
                            }
                            if !answered {
                                cleared = true;
                            }
                        } else {
                            let resp = if after { TimeResponse::DurationElapsed { id } } else { TimeResponse::InstantArrived { id } };
                            let r = shell.respond(h, Resp::Time(resp));
                            if !answered {
                                answered = true;
                                expect = Some(!cleared);
                                r.map_err(|e| ("legacy/first-answer-rejected".to_string(), e))?;
                            } else if r.is_ok() {
                                return Err(("legacy/second-answer-accepted".into(), String::new()));
                            }
                        }
                    }
                    let log = shell.log().map_err(|e| ("legacy/call-failed".to_string(), e))?;
                    let outs: Vec<&Outcome> = log[before..].iter().collect();
                    let got: Vec<bool> = outs
                        .iter()
                        .filter_map(|o| match o {
                            Outcome::Time(TimeOut::Completed(i)) if *i == id.0 as u64 => Some(true),
                            Outcome::Time(TimeOut::Cleared(i)) if *i == id.0 as u64 => Some(false),
                            _ => None,
                        })
                        .collect();
                    let want: Vec<bool> = expect.into_iter().collect();
                    if got != want || outs.len() != want.len() {
                        let sig = if got.len() > 1 {
                            "legacy/second-outcome"
                        } else if got.first() == Some(&true) && cleared {
                            "legacy/completed-although-cleared-first"
                        } else if got.first() == Some(&false) && !cleared {
                            "legacy/cleared-without-app-clear"
                        } else {
                            "legacy/outcome-differs"
                        };
                        return Err((sig.into(), format!("sequence {seq:?} (true = clear): outcomes {outs:?}, expected {want:?}")));
                    }
                    shell.drop_request(h);
                    Ok(())
                });
                let mut r = report.lock().unwrap();
                r.eval();
                r.count("legacy_timer_sequences", 1);
                match res {
                    Ok(Ok(())) => {
                        if seq.len() >= 2 {
                            r.nontrivial(hash_json(&(&seq, after, "legacy")));
                        }
                    }
                    Ok(Err((sig, what))) => r.violation(&sig, &what, json!({"lane": "timelab-legacy", "sequence_true_is_clear": seq, "notify_after": after, "what": what})),
                    Err(p) => {
                        r.violation(&format!("panic/{}", vcommon::panic_site(&p)), &format!("panic in a legacy timer sequence: {p}"), json!({"lane": "timelab-legacy", "sequence_true_is_clear": seq}));
                        drop(r);
                        shell = TypedShell::<caplab::app::AppD>::new("Core(derive)");
                    }
                }
            }
        }
    }
    // ---- started and cleared in the same update: nothing but the Clear goes to the shell, the ----
    // ---- outcome is Cleared at once (both APIs) ---------------------------------------------------
    for rep in 0..40u64 {
        for api in [Api::Legacy, Api::Command] {
            let res = vcommon::trap(|| -> Result<(), (String, String)> {
                let before = shell.log().map_err(|e| ("legacy/call-failed".to_string(), e))?.len();
                let reqs = shell.send(&Job::Time(api, TimeJob::SetThenClearNanos(5 + rep))).map_err(|e| ("legacy/call-failed".to_string(), e))?;
                let timer_requests = reqs.iter().filter(|(_, op)| matches!(op, Op::Time(TimeRequest::NotifyAfter { .. }) | Op::Time(TimeRequest::NotifyAt { .. }))).count();
                if timer_requests != 0 {
                    return Err(("timer/request-sent-although-cleared-before-start".into(), format!("{api:?}: {reqs:?}")));
                }
                let clears = reqs.iter().filter(|(_, op)| matches!(op, Op::Time(TimeRequest::Clear { .. }))).count();
                let want_clears = if api == Api::Legacy { 1 } else { 0 };
                if clears != want_clears || reqs.len() != want_clears {
                    return Err(("timer/unexpected-clear-request".into(), format!("{api:?}: {reqs:?}, expected {want_clears} clear notification(s) and nothing else")));
                }
                let log = shell.log().map_err(|e| ("legacy/call-failed".to_string(), e))?;
                let outs: Vec<&Outcome> = log[before..].iter().collect();
                let ok = matches!(&outs[..], [Outcome::Time(TimeOut::Cleared(_))]);
                if !ok {
                    return Err(("timer/outcome-missing".into(), format!("{api:?}: a timer cleared in the update that started it reported {outs:?}, expected exactly Cleared")));
                }
                Ok(())
            });
            let mut r = report.lock().unwrap();
            r.eval();
            r.count("set_then_clear_in_one_update", 1);
            match res {
                Ok(Ok(())) => r.nontrivial(hash_json(&("set-then-clear", rep, api == Api::Legacy))),
                Ok(Err((sig, what))) => r.violation(&sig, &what, json!({"lane": "timelab-legacy", "job": "SetThenClear", "what": what})),
                Err(p) => {
                    r.violation(&format!("panic/{}", vcommon::panic_site(&p)), &format!("panic in set-then-clear: {p}"), json!({"lane": "timelab-legacy"}));
                    drop(r);
                    shell = TypedShell::<caplab::app::AppD>::new("Core(derive)");
                }
            }
        }
    }

    // ---- several legacy timers at once, with other timers being cleared late in between ----------
    // (the capability API keeps cleared ids in a process-wide set: a clear that is still waiting
    // to be observed must survive whatever else happens to that set)
    let mut rng = Rng::new(0x1e9ac1);
    for case_no in 0..120u64 {
        let k = rng.range(2, 4) as usize;
        let steps = rng.range(3, 12) as usize;
        // (timer, action): 0 = clear, 1 = fire, 2 = noise (other timers fire and are cleared late)
        let script: Vec<(usize, u8, u64)> = (0..steps).map(|_| (rng.usize_below(k), rng.below(3) as u8, rng.range(1, 60))).collect();
        let res = vcommon::trap(|| -> Result<usize, (String, String)> {
            let fail = |e: String| ("legacy/call-failed".to_string(), e);
            let before = shell.log().map_err(fail)?.len();
            let mut timers = vec![];
            for _ in 0..k {
                let reqs = shell.send(&Job::Time(Api::Legacy, TimeJob::NotifyAfterNanos(7))).map_err(fail)?;
                let (h, id) = match &reqs[..] {
                    [(h, Op::Time(TimeRequest::NotifyAfter { id, .. }))] => (*h, *id),
                    other => return Err(("legacy/not-exactly-one-timer-request".into(), format!("{other:?}"))),
                };
                if !ids.insert(id.0) {
                    return Err(("timer/id-reused".into(), format!("legacy timer got id {} which another timer in this process has", id.0)));
                }
                timers.push((h, id, false, false)); // (handle, id, cleared, answered)
            }
            let mut want: Vec<(u64, bool)> = vec![]; // (id, completed)
            for (i, what, n) in &script {
                let (h, id, cleared, answered) = timers[*i];
                match what {
                    0 => {
                        shell.send(&Job::Time(Api::Legacy, TimeJob::Clear(id.0 as u64))).map_err(fail)?;
                        if !answered {
                            timers[*i].2 = true;
                        }
                    }
                    1 => {
                        let r = shell.respond(h, Resp::Time(TimeResponse::DurationElapsed { id }));
                        if !answered {
                            timers[*i].3 = true;
                            want.push((id.0 as u64, !cleared));
                            r.map_err(|e| ("legacy/first-answer-rejected".to_string(), e))?;
                        }
                    }
                    _ => {
                        for _ in 0..*n {
                            let reqs = shell.send(&Job::Time(Api::Legacy, TimeJob::NotifyAfterNanos(3))).map_err(fail)?;
                            let (nh, nid) = match &reqs[..] {
                                [(h, Op::Time(TimeRequest::NotifyAfter { id, .. }))] => (*h, *id),
                                other => return Err(("legacy/not-exactly-one-timer-request".into(), format!("{other:?}"))),
                            };
                            ids.insert(nid.0);
                            shell.respond(nh, Resp::Time(TimeResponse::DurationElapsed { id: nid })).map_err(fail)?;
                            want.push((nid.0 as u64, true));
                            shell.send(&Job::Time(Api::Legacy, TimeJob::Clear(nid.0 as u64))).map_err(fail)?;
                            shell.drop_request(nh);
                        }
                    }
                }
            }
            let log = shell.log().map_err(fail)?;
            let got: Vec<(u64, bool)> = log[before..]
                .iter()
                .filter_map(|o| match o {
                    Outcome::Time(TimeOut::Completed(i)) => Some((*i, true)),
                    Outcome::Time(TimeOut::Cleared(i)) => Some((*i, false)),
                    _ => None,
                })
                .collect();
            if got != want {
                let wrong: Vec<_> = got.iter().filter(|g| !want.contains(g)).collect();
                let sig = if wrong.iter().any(|(_, completed)| *completed) {
                    "legacy/completed-although-cleared-first"
                } else if !wrong.is_empty() {
                    "legacy/cleared-without-app-clear"
                } else {
                    "legacy/outcome-differs"
                };
                return Err((sig.into(), format!("outcomes (id, completed) {got:?}, expected {want:?}")));
            }
            for (h, ..) in timers {
                shell.drop_request(h);
            }
            Ok(want.len())
        });
        let mut r = report.lock().unwrap();
        r.eval();
        r.count("legacy_multi_timer_runs", 1);
        match res {
            Ok(Ok(n)) => {
                r.count("legacy_multi_timer_outcomes", n as u64);
                r.nontrivial(hash_json(&("legacy-multi", case_no, &script)));
            }
            Ok(Err((sig, what))) => r.violation(&sig, &what, json!({"lane": "timelab-legacy", "timers": k, "script_timer_action_noise": script, "what": what})),
            Err(p) => {
                r.violation(&format!("panic/{}", vcommon::panic_site(&p)), &format!("panic in a legacy multi-timer run: {p}"), json!({"lane": "timelab-legacy", "script_timer_action_noise": script}));
                drop(r);
                shell = TypedShell::<caplab::app::AppD>::new("Core(derive)");
            }
        }
    }
    wd.end();
}

/// Several timers inside one `Command::all`, each followed by its own automaton
fn multi_timer(kinds: &[bool], script: &[(usize, Act)], ids: &mut HashSet<usize>) -> Result<usize, (String, String)> {
    let k = kinds.len();
    let mut handles: Vec<Option<TimerHandle>> = vec![];
    let mut cmds = vec![];
    for (i, after) in kinds.iter().enumerate() {
        let t = new_timer(*after, i);
        handles.push(t.handle);
        cmds.push(t.cmd);
    }
    let mut all = Command::all(cmds);
    let mut exp: Vec<Expect> = (0..k).map(|_| Expect::new()).collect();
    let mut reqs: Vec<Option<Request<TimeRequest>>> = (0..k).map(|_| None).collect();
    let mut clears: Vec<Option<Request<TimeRequest>>> = (0..k).map(|_| None).collect();
    let mut tid: Vec<Option<TimerId>> = vec![None; k];
    let mut outcomes = 0usize;
    for (step, (i, a)) in script.iter().enumerate() {
        let i = *i;
        // a poll runs every timer; the other actions concern one
        let mut want_req = vec![0usize; k];
        let mut want_clr = vec![0usize; k];
        let mut want_out: Vec<Option<bool>> = vec![None; k];
        if *a == Act::Poll {
            for j in 0..k {
                let w = exp[j].step(Act::Poll);
                want_req[j] = w.0;
                want_clr[j] = w.1;
                want_out[j] = w.2;
            }
        } else {
            exp[i].step(*a);
        }
        match a {
            Act::Clear => {
                if let Some(h) = handles[i].take() {
                    h.clear()
                }
            }
            Act::DropHandle => drop(handles[i].take()),
            Act::Fire => {
                if let (Some(r), Some(id)) = (reqs[i].as_mut(), tid[i]) {
                    let resp = if kinds[i] {
                        TimeResponse::DurationElapsed { id }
                    } else {
                        TimeResponse::InstantArrived { id }
                    };
                    let _ = r.resolve(resp);
                }
            }
            Act::DropRequest => drop(reqs[i].take()),
            Act::AnswerClear => {
                if let (Some(r), Some(id)) = (clears[i].as_mut(), tid[i]) {
                    let _ = r.resolve(TimeResponse::Cleared { id });
                }
            }
            Act::DropClearRequest => drop(clears[i].take()),
            Act::Poll => {
                let mut got_req = vec![0usize; k];
                let mut got_clr = vec![0usize; k];
                let mut got_out: Vec<Vec<bool>> = vec![vec![]; k];
                let effects: Vec<Effect> = all.effects().collect();
                let events: Vec<Ev> = all.events().collect();
                // requests carry only the id: attribute them by kind and by the ids seen so far
                for e in effects {
                    let Effect::Time(r) = e;
                    match r.operation.clone() {
                        TimeRequest::NotifyAfter { id, .. } | TimeRequest::NotifyAt { id, .. } => {
                            let is_after = matches!(r.operation, TimeRequest::NotifyAfter { .. });
                            if !ids.insert(id.0) {
                                return Err(("timer/id-reused".into(), format!("step {step}: id {} handed out twice", id.0)));
                            }
                            // which timer? one that expects a request now and has that kind
                            let Some(j) = (0..k).find(|j| want_req[*j] > got_req[*j] && kinds[*j] == is_after && tid[*j].is_none()) else {
                                return Err(("timer/unexpected-timer-request".into(), format!("step {step}: nobody expected a timer request with id {}", id.0)));
                            };
                            tid[j] = Some(id);
                            got_req[j] += 1;
                            reqs[j] = Some(r);
                        }
                        TimeRequest::Clear { id } => {
                            let Some(j) = (0..k).find(|j| tid[*j] == Some(id)) else {
                                return Err(("timer/clear-for-unknown-id".into(), format!("step {step}: clear for id {} which no timer has", id.0)));
                            };
                            got_clr[j] += 1;
                            clears[j] = Some(r);
                        }
                        TimeRequest::Now => {}
                    }
                }
                for ev in events {
                    let Ev::Outcome(j, c) = ev;
                    got_out[j].push(c);
                    outcomes += 1;
                }
                for j in 0..k {
                    let wo: Vec<bool> = want_out[j].into_iter().collect();
                    if got_req[j] != want_req[j] || got_clr[j] != want_clr[j] || got_out[j] != wo {
                        return Err((
                            "timer/multi-timer-mismatch".into(),
                            format!(
                                "step {step}: timer {j}: requests {}/{} clears {}/{} outcomes {:?}/{:?} (observed/expected)",
                                got_req[j], want_req[j], got_clr[j], want_clr[j], got_out[j], wo
                            ),
                        ));
                    }
                }
            }
        }
    }
    Ok(outcomes)
}

// ---------------------------------------------------------------------------
// C19: conversions
// ---------------------------------------------------------------------------

const NS: u128 = 1_000_000_000;

fn dur_nanos(d: &crux_time::Duration) -> u128 {
    serde_json::to_value(d).unwrap()["nanos"].as_u64().unwrap() as u128
}

fn inst_parts(i: &crux_time::Instant) -> (u64, u32) {
    let v = serde_json::to_value(i).unwrap();
    (v["seconds"].as_u64().unwrap(), v["nanos"].as_u64().unwrap() as u32)
}

fn inst_from_wire(secs: u64, nanos: u32) -> crux_time::Instant {
    serde_json::from_value(json!({"seconds": secs, "nanos": nanos})).expect("wire instant")
}

fn dur_from_wire(nanos: u64) -> crux_time::Duration {
    serde_json::from_value(json!({"nanos": nanos})).expect("wire duration")
}

enum Conv<T> {
    Value(T),
    Rejected(String),
}

fn attempt<T>(f: impl FnOnce() -> Result<T, String>) -> Conv<T> {
    match vcommon::trap(f) {
        Ok(Ok(v)) => Conv::Value(v),
        Ok(Err(e)) => Conv::Rejected(format!("Err({e})")),
        Err(p) => Conv::Rejected(format!("panic({p})")),
    }
}

fn u64_edge(rng: &mut Rng) -> u64 {
    const E: [u64; 16] = [
        0,
        1,
        999_999_999,
        1_000_000_000,
        1_000_000_001,
        u32::MAX as u64,
        i64::MAX as u64,
        i64::MAX as u64 + 1,
        u64::MAX,
        u64::MAX - 1,
        u64::MAX / 1_000_000_000,
        u64::MAX / 1_000_000_000 + 1,
        u64::MAX / 1_000_000,
        u64::MAX / 1_000_000 + 1,
        253_402_300_799, // 9999-12-31T23:59:59Z
        8_210_266_876_799, // around chrono's maximum year
    ];
    match rng.below(3) {
        0 => *rng.pick(&E),
        1 => rng.pick(&E).wrapping_add(rng.below(5)).wrapping_sub(2),
        _ => match rng.below(4) {
            0 => rng.next_u64(),
            1 => rng.next_u64() >> 20,
            2 => rng.next_u64() >> 34,
            _ => rng.below(100_000),
        },
    }
}

fn nanos_edge(rng: &mut Rng) -> u32 {
    match rng.below(8) {
        0 => 0,
        1 => 1,
        2 => 999_999_999,
        3 => 1_000_000_000,
        4 => 1_999_999_999,
        5 => u32::MAX,
        _ => rng.below(1_000_000_000) as u32,
    }
}

fn c19(args: &Args, report: &Arc<Mutex<Report>>, wd: &Watchdog) {
    let n = args.share(200_000, 16_000_000);
    let seed = args.worker_seed();
    wd.begin(|| json!({"lane": "timelab-c19"}).to_string());
    let mut r = report.lock().unwrap();
    let mut bad = |r: &mut Report, conv: &str, kind: &str, input: String, detail: String| {
        r.violation(
            &format!("convert/{conv}/{kind}"),
            &format!("{conv}: {kind}"),
            json!({"lane": "timelab-c19", "conversion": conv, "input": input, "detail": detail}),
        );
    };
    for case_no in 0..n {
        let mut rng = Rng::derive(seed, case_no, 19);
        r.eval();
        let which = case_no % 12;
        match which {
            // std Duration -> Duration
            0 => {
                let secs = u64_edge(&mut rng);
                let nanos = nanos_edge(&mut rng) % 1_000_000_000;
                let d = StdDuration::new(secs, nanos);
                let exact = d.as_nanos();
                match attempt(|| Ok(crux_time::Duration::from(d))) {
                    Conv::Value(v) => {
                        r.count("exact_conversions", 1);
                        if dur_nanos(&v) != exact {
                            bad(&mut r, "std::time::Duration->Duration", "value-changed", format!("{d:?}"), format!("{} ns became {} ns", exact, dur_nanos(&v)));
                        }
                    }
                    Conv::Rejected(_) => {
                        r.count("explicit_rejections", 1);
                        if exact <= u64::MAX as u128 {
                            bad(&mut r, "std::time::Duration->Duration", "representable-value-rejected", format!("{d:?}"), String::new());
                        }
                    }
                }
                r.set("conversions", "std::time::Duration->Duration");
            }
            // Duration -> std Duration
            1 => {
                let n = u64_edge(&mut rng);
                let d = dur_from_wire(n);
                match attempt(|| Ok(StdDuration::from(d))) {
                    Conv::Value(v) => {
                        r.count("exact_conversions", 1);
                        if v.as_nanos() != n as u128 {
                            bad(&mut r, "Duration->std::time::Duration", "value-changed", n.to_string(), format!("{}", v.as_nanos()));
                        }
                    }
                    Conv::Rejected(e) => bad(&mut r, "Duration->std::time::Duration", "representable-value-rejected", n.to_string(), e),
                }
                r.set("conversions", "Duration->std::time::Duration");
            }
            // from_millis / from_secs
            2 => {
                let x = u64_edge(&mut rng);
                for (name, mult) in [("Duration::from_millis", 1_000_000u128), ("Duration::from_secs", NS)] {
                    let exact = x as u128 * mult;
                    let res = if mult == NS {
                        attempt(|| Ok(crux_time::Duration::from_secs(x)))
                    } else {
                        attempt(|| Ok(crux_time::Duration::from_millis(x)))
                    };
                    match res {
                        Conv::Value(v) => {
                            r.count("exact_conversions", 1);
                            if dur_nanos(&v) != exact {
                                bad(&mut r, name, "value-changed", x.to_string(), format!("{} became {}", exact, dur_nanos(&v)));
                            }
                        }
                        Conv::Rejected(_) => {
                            r.count("explicit_rejections", 1);
                            if exact <= u64::MAX as u128 {
                                bad(&mut r, name, "representable-value-rejected", x.to_string(), String::new());
                            }
                        }
                    }
                    r.set("conversions", name);
                }
            }
            // TimeDelta -> Duration
            3 => {
                let raw = u64_edge(&mut rng) as i64; // covers negatives through the wrap of large values
                let neg = if rng.chance(1, 3) { raw.wrapping_neg() } else { raw };
                let neg = if neg == i64::MIN { i64::MIN + 1 } else { neg };
                let td = if rng.chance(1, 4) {
                    TimeDelta::try_milliseconds(neg / 1000).unwrap_or(TimeDelta::nanoseconds(neg))
                } else if rng.chance(1, 4) {
                    // built from seconds + nanoseconds: reaches the values above i64::MAX ns (which
                    // chrono cannot count in nanoseconds) up to and beyond u64::MAX ns
                    let secs = rng.range(9_223_372_030, 18_446_744_080) as i64;
                    TimeDelta::new(secs, rng.below(1_000_000_000) as u32).unwrap_or(TimeDelta::nanoseconds(neg))
                } else {
                    TimeDelta::nanoseconds(neg)
                };
                // exact value in ns, where chrono can say it
                let exact: Option<i128> = match td.num_nanoseconds() {
                    Some(n) => Some(n as i128),
                    None => Some(td.num_milliseconds() as i128 * 1_000_000 + (td.subsec_nanos() as i128 % 1_000_000)),
                };
                match attempt(|| crux_time::Duration::try_from(td).map_err(|e| e.to_string())) {
                    Conv::Value(v) => {
                        r.count("exact_conversions", 1);
                        if Some(dur_nanos(&v) as i128) != exact {
                            let kind = if exact.map(|e| e < 0).unwrap_or(false) { "negative-value-wrapped" } else { "value-changed" };
                            bad(&mut r, "chrono::TimeDelta->Duration", kind, format!("{td:?}"), format!("{:?} ns became {} ns", exact, dur_nanos(&v)));
                        }
                    }
                    Conv::Rejected(_) => {
                        r.count("explicit_rejections", 1);
                        if let Some(e) = exact {
                            if e >= 0 && e <= i64::MAX as i128 {
                                bad(&mut r, "chrono::TimeDelta->Duration", "representable-value-rejected", format!("{td:?}"), String::new());
                            }
                        }
                    }
                }
                r.set("conversions", "chrono::TimeDelta->Duration");
            }
            // Duration -> TimeDelta
            4 => {
                let n = u64_edge(&mut rng);
                let d = dur_from_wire(n);
                match attempt(|| TimeDelta::try_from(d).map_err(|e| e.to_string())) {
                    Conv::Value(v) => {
                        r.count("exact_conversions", 1);
                        if v.num_nanoseconds().map(|x| x as i128) != Some(n as i128) {
                            bad(&mut r, "Duration->chrono::TimeDelta", "value-changed", n.to_string(), format!("{v:?}"));
                        }
                    }
                    Conv::Rejected(_) => {
                        r.count("explicit_rejections", 1);
                        if n <= i64::MAX as u64 {
                            bad(&mut r, "Duration->chrono::TimeDelta", "representable-value-rejected", n.to_string(), String::new());
                        }
                    }
                }
                r.set("conversions", "Duration->chrono::TimeDelta");
            }
            // Instant::new
            5 => {
                let s = u64_edge(&mut rng);
                let ns = nanos_edge(&mut rng);
                match attempt(|| Ok(crux_time::Instant::new(s, ns))) {
                    Conv::Value(v) => {
                        r.count("exact_conversions", 1);
                        if ns >= 1_000_000_000 {
                            bad(&mut r, "Instant::new", "invalid-subsecond-part-accepted", format!("({s}, {ns})"), String::new());
                        } else if inst_parts(&v) != (s, ns) {
                            bad(&mut r, "Instant::new", "value-changed", format!("({s}, {ns})"), format!("{:?}", inst_parts(&v)));
                        }
                    }
                    Conv::Rejected(_) => {
                        r.count("explicit_rejections", 1);
                        if ns < 1_000_000_000 {
                            bad(&mut r, "Instant::new", "representable-value-rejected", format!("({s}, {ns})"), String::new());
                        }
                    }
                }
                r.set("conversions", "Instant::new");
            }
            // SystemTime -> Instant (at or after the epoch; before the epoch must be rejected)
            6 => {
                let s = u64_edge(&mut rng) >> rng.range(0, 34);
                let ns = nanos_edge(&mut rng) % 1_000_000_000;
                if rng.chance(1, 5) && (s, ns) != (0, 0) {
                    if let Some(before) = SystemTime::UNIX_EPOCH.checked_sub(StdDuration::new(s >> 8, ns)) {
                        if before < SystemTime::UNIX_EPOCH {
                            match attempt(|| Ok(crux_time::Instant::from(before))) {
                                Conv::Value(v) => bad(&mut r, "SystemTime->Instant", "negative-value-normalised", format!("-{}.{ns:09}", s >> 8), format!("{:?}", inst_parts(&v))),
                                Conv::Rejected(_) => r.count("explicit_rejections", 1),
                            }
                            r.set("conversions", "SystemTime->Instant");
                            r.nontrivial(vcommon::hash_mix(rng.state()[0], 600));
                            continue;
                        }
                    }
                }
                let Some(st) = SystemTime::UNIX_EPOCH.checked_add(StdDuration::new(s, ns)) else {
                    continue;
                };
                match attempt(|| Ok(crux_time::Instant::from(st))) {
                    Conv::Value(v) => {
                        r.count("exact_conversions", 1);
                        if inst_parts(&v) != (s, ns) {
                            bad(&mut r, "SystemTime->Instant", "value-changed", format!("{s}.{ns:09}"), format!("{:?}", inst_parts(&v)));
                        }
                    }
                    Conv::Rejected(e) => bad(&mut r, "SystemTime->Instant", "representable-value-rejected", format!("{s}.{ns:09}"), e),
                }
                r.set("conversions", "SystemTime->Instant");
            }
            // Instant (from the wire, any nanos) -> SystemTime
            7 => {
                let s = u64_edge(&mut rng);
                let ns = nanos_edge(&mut rng);
                let i = inst_from_wire(s, ns);
                let exact = s as u128 * NS + ns as u128;
                match attempt(|| Ok(SystemTime::from(i))) {
                    Conv::Value(v) => {
                        r.count("exact_conversions", 1);
                        let got = v.duration_since(SystemTime::UNIX_EPOCH).map(|d| d.as_nanos()).ok();
                        if got != Some(exact) {
                            bad(&mut r, "Instant->SystemTime", "value-changed", format!("({s}, {ns})"), format!("{got:?} vs {exact}"));
                        }
                    }
                    Conv::Rejected(_) => {
                        r.count("explicit_rejections", 1);
                        // representable iff std can hold it
                        if SystemTime::UNIX_EPOCH
                            .checked_add(StdDuration::new(s.min(u64::MAX - 5), 0))
                            .is_some()
                            && s < u64::MAX - 5
                            && ns < 1_000_000_000
                            && SystemTime::UNIX_EPOCH.checked_add(StdDuration::new(s, ns)).is_some()
                        {
                            bad(&mut r, "Instant->SystemTime", "representable-value-rejected", format!("({s}, {ns})"), String::new());
                        }
                    }
                }
                r.set("conversions", "Instant->SystemTime");
            }
            // Instant -> DateTime<Utc>
            8 => {
                let s = u64_edge(&mut rng);
                let ns = nanos_edge(&mut rng);
                let i = inst_from_wire(s, ns);
                match attempt(|| DateTime::<Utc>::try_from(i).map_err(|e| e.to_string())) {
                    Conv::Value(v) => {
                        r.count("exact_conversions", 1);
                        if v.timestamp() as i128 != s as i128 || v.timestamp_subsec_nanos() != ns {
                            bad(&mut r, "Instant->chrono::DateTime", "value-changed", format!("({s}, {ns})"), format!("({}, {})", v.timestamp(), v.timestamp_subsec_nanos()));
                        }
                    }
                    Conv::Rejected(_) => {
                        r.count("explicit_rejections", 1);
                        let representable = s <= i64::MAX as u64 && DateTime::<Utc>::from_timestamp(s as i64, ns).is_some();
                        if representable {
                            bad(&mut r, "Instant->chrono::DateTime", "representable-value-rejected", format!("({s}, {ns})"), String::new());
                        }
                    }
                }
                r.set("conversions", "Instant->chrono::DateTime");
            }
            // DateTime<Utc> -> Instant (incl. before the epoch and leap seconds)
            9 => {
                let raw = (u64_edge(&mut rng) >> rng.range(0, 30)) as i64;
                let s = if rng.chance(1, 4) { -(raw.checked_abs().unwrap_or(i64::MAX)) } else { raw };
                let ns = if rng.chance(1, 6) {
                    1_000_000_000 + rng.below(1_000_000_000) as u32
                } else {
                    nanos_edge(&mut rng) % 1_000_000_000
                };
                let s = if ns >= 1_000_000_000 { s.saturating_sub(s.rem_euclid(60)).saturating_add(59) } else { s };
                let Some(dt) = DateTime::<Utc>::from_timestamp(s, ns) else {
                    continue;
                };
                match attempt(|| crux_time::Instant::try_from(dt).map_err(|e| e.to_string())) {
                    Conv::Value(v) => {
                        r.count("exact_conversions", 1);
                        let (gs, gn) = inst_parts(&v);
                        if s < 0 {
                            bad(&mut r, "chrono::DateTime->Instant", "negative-value-wrapped", format!("{dt:?}"), format!("({gs}, {gn})"));
                        } else if (gs as i128, gn) != (s as i128, ns) {
                            bad(&mut r, "chrono::DateTime->Instant", "value-changed", format!("{dt:?}"), format!("({gs}, {gn})"));
                        } else if let Ok(back) = DateTime::<Utc>::try_from(v) {
                            if back != dt {
                                bad(&mut r, "chrono::DateTime->Instant->DateTime", "round-trip-changed", format!("{dt:?}"), format!("{back:?}"));
                            }
                        }
                    }
                    Conv::Rejected(_) => {
                        r.count("explicit_rejections", 1);
                        if s >= 0 {
                            bad(&mut r, "chrono::DateTime->Instant", "representable-value-rejected", format!("{dt:?}"), String::new());
                        }
                    }
                }
                r.set("conversions", "chrono::DateTime->Instant");
            }
            // what notify_after / notify_at put on the wire
            10 => {
                let secs = u64_edge(&mut rng) >> rng.range(0, 40);
                let nanos = nanos_edge(&mut rng) % 1_000_000_000;
                let d = StdDuration::new(secs, nanos);
                let exact = d.as_nanos();
                let res = attempt(|| {
                    let (b, _h) = Time::<Effect, Ev>::notify_after(d);
                    let mut cmd = b.then_send(|_| Ev::Outcome(0, true));
                    let e = cmd.effects().next().ok_or("no request")?;
                    let Effect::Time(req) = e;
                    match req.operation {
                        TimeRequest::NotifyAfter { duration, .. } => Ok(dur_nanos(&duration)),
                        _ => Err("wrong request".to_string()),
                    }
                });
                match res {
                    Conv::Value(v) => {
                        r.count("exact_conversions", 1);
                        if v != exact {
                            bad(&mut r, "Time::notify_after(duration)", "value-changed", format!("{d:?}"), format!("{exact} ns requested as {v} ns"));
                        }
                    }
                    Conv::Rejected(_) => {
                        r.count("explicit_rejections", 1);
                        if exact <= u64::MAX as u128 {
                            bad(&mut r, "Time::notify_after(duration)", "representable-value-rejected", format!("{d:?}"), String::new());
                        }
                    }
                }
                r.set("conversions", "Time::notify_after(duration)");
            }
            _ => {
                let s = u64_edge(&mut rng) >> rng.range(0, 34);
                let ns = nanos_edge(&mut rng) % 1_000_000_000;
                let Some(at) = SystemTime::UNIX_EPOCH.checked_add(StdDuration::new(s, ns)) else {
                    continue;
                };
                let res = attempt(|| {
                    let (b, _h) = Time::<Effect, Ev>::notify_at(at);
                    let mut cmd = b.then_send(|_| Ev::Outcome(0, true));
                    let e = cmd.effects().next().ok_or("no request")?;
                    let Effect::Time(req) = e;
                    match req.operation {
                        TimeRequest::NotifyAt { instant, .. } => Ok(inst_parts(&instant)),
                        _ => Err("wrong request".to_string()),
                    }
                });
                match res {
                    Conv::Value(v) => {
                        r.count("exact_conversions", 1);
                        if v != (s, ns) {
                            bad(&mut r, "Time::notify_at(system_time)", "value-changed", format!("{s}.{ns:09}"), format!("{v:?}"));
                        }
                    }
                    Conv::Rejected(e) => bad(&mut r, "Time::notify_at(system_time)", "representable-value-rejected", format!("{s}.{ns:09}"), e),
                }
                r.set("conversions", "Time::notify_at(system_time)");
            }
        }
        r.nontrivial(vcommon::hash_mix(rng.state()[0], which));
        if case_no < 12 {
            r.sample(|| json!({"conversion_index": which, "note": "see observed_sets.conversions for the list"}));
        }
    }
    drop(r);
    wd.end();
}

fn main() {
    let args = Args::parse();
    if args.prop == "noop" {
        return;
    }
    vcommon::install_panic_hook();
    let report = Arc::new(Mutex::new(Report::new(&args.prop)));
    let wd = Watchdog::start(report.clone(), args.out.clone(), std::time::Duration::from_secs(300));
    match args.prop.as_str() {
        "C18" => c18(&args, &report, &wd),
        "C19" => c19(&args, &report, &wd),
        other => panic!("timelab does not serve {other}"),
    }
    report.lock().unwrap().finish(&args);
}
