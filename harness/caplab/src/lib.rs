pub mod app;
pub mod drive;
pub mod mw;
pub mod wire;
