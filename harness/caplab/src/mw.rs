//! Harness middleware for C16: records enter/exit marks in a global log.

use std::sync::Mutex;

use crux_http::client::Client;
use crux_http::middleware::{Middleware, Next, Redirect};
use crux_http::{Request, ResponseAsync, Result};

use crate::app::MwJob;

/// (job id, mark)
pub static MARKS: Mutex<Vec<(u32, String)>> = Mutex::new(Vec::new());

pub fn mark(job: u32, s: String) {
    MARKS.lock().unwrap().push((job, s));
}

pub fn take_marks() -> Vec<(u32, String)> {
    std::mem::take(&mut *MARKS.lock().unwrap())
}

pub struct Mw {
    pub job: u32,
    pub spec: MwJob,
}

#[async_trait::async_trait]
impl Middleware for Mw {
    async fn handle(&self, req: Request, client: Client, next: Next<'_>) -> Result<ResponseAsync> {
        match &self.spec {
            MwJob::Mark(id) => {
                mark(self.job, format!("enter {id} {}", req.url()));
                let r = next.run(req, client).await;
                mark(self.job, format!("exit {id}"));
                r
            }
            MwJob::ShortCircuit(id, status) => {
                mark(self.job, format!("short {id}"));
                let res = crux_http::http::Response::new(*status);
                Ok(res.into())
            }
            MwJob::Issue(id, url) => {
                mark(self.job, format!("enter {id} {}", req.url()));
                let extra = client.get(url).send_async().await;
                mark(
                    self.job,
                    format!(
                        "issued {id} -> {}",
                        match &extra {
                            Ok(r) => (r.status() as u16).to_string(),
                            Err(_) => "err".into(),
                        }
                    ),
                );
                let r = next.run(req, client).await;
                mark(self.job, format!("exit {id}"));
                r
            }
            MwJob::Twice(id) => {
                mark(self.job, format!("enter {id} {}", req.url()));
                let first = next.run(req.clone(), client.clone()).await;
                mark(
                    self.job,
                    format!(
                        "first {id} -> {}",
                        match &first {
                            Ok(r) => (r.status() as u16).to_string(),
                            Err(_) => "err".into(),
                        }
                    ),
                );
                let r = next.run(req, client).await;
                mark(self.job, format!("exit {id}"));
                r
            }
            MwJob::Redirect(_) => unreachable!("attached as the real Redirect middleware"),
        }
    }
}

/// Attach one middleware to either kind of request builder (they share no trait)
macro_rules! attach {
    ($b:expr, $m:expr, $job:expr) => {
        match $m {
            $crate::app::MwJob::Redirect(n) => $b.middleware(crux_http::middleware::Redirect::new(*n)),
            other => $b.middleware($crate::mw::Mw {
                job: $job,
                spec: other.clone(),
            }),
        }
    };
}
pub(crate) use attach;

pub fn attach_client<Ev: 'static>(http: crux_http::Http<Ev>, m: &MwJob, job: u32) -> crux_http::Http<Ev> {
    match m {
        MwJob::Redirect(n) => http.verif_with_client_middleware(Redirect::new(*n)),
        other => http.verif_with_client_middleware(Mw {
            job,
            spec: other.clone(),
        }),
    }
}
