//! Shells for the capability lab app: typed core and serialized bridges behind one interface.

use std::collections::HashMap;

use bincode::Options;
use crux_core::bridge::{Bridge, BridgeWithSerializer};
use crux_core::render::RenderOperation;
use crux_core::{Core, Request};
use crux_http::protocol::{HttpRequest, HttpResult};
use crux_kv::{KeyValueOperation, KeyValueResult};
use crux_platform::{PlatformRequest, PlatformResponse};
use crux_time::{TimeRequest, TimeResponse};
use serde::{Deserialize, Serialize};

use crate::app::*;

#[derive(Clone, Debug, PartialEq, Serialize, Deserialize)]
pub enum Op {
    Http(HttpRequest),
    #[serde(alias = "KeyValue")]
    Kv(KeyValueOperation),
    Platform(PlatformRequest),
    Render(RenderOperation),
    Time(TimeRequest),
}

#[derive(Debug, PartialEq)]
pub enum Resp {
    Http(HttpResult),
    Kv(KeyValueResult),
    Platform(PlatformResponse),
    Time(TimeResponse),
}

pub type Handle = u64;

pub trait Shell {
    fn name(&self) -> &'static str;
    /// deliver `Event::Do(job)`; returns the effect requests of that call
    fn send(&mut self, job: &Job) -> Result<Vec<(Handle, Op)>, String>;
    /// answer an outstanding request; returns the effect requests of that call
    fn respond(&mut self, h: Handle, r: Resp) -> Result<Vec<(Handle, Op)>, String>;
    fn log(&mut self) -> Result<Vec<Outcome>, String>;
    /// raw serialized form of the last effect batch / the view, where the shell has one
    fn last_batch_bytes(&self) -> Option<Vec<u8>> {
        None
    }
    fn view_bytes(&mut self) -> Option<Vec<u8>> {
        None
    }
    fn drop_request(&mut self, _h: Handle) {}
}

// ---------------------------------------------------------------------------
// typed
// ---------------------------------------------------------------------------

pub struct TypedShell<A: crux_core::App<Event = Event, ViewModel = ViewModel>>
where
    A::Effect: CapEffect,
{
    pub core: Core<A>,
    reqs: HashMap<Handle, AnyReq>,
    next: Handle,
    name: &'static str,
}

impl<A: crux_core::App<Event = Event, ViewModel = ViewModel>> TypedShell<A>
where
    A::Effect: CapEffect,
    A::Capabilities: crux_core::WithContext<Event, A::Effect>,
{
    pub fn new(name: &'static str) -> Self {
        TypedShell {
            core: Core::new(),
            reqs: HashMap::new(),
            next: 0,
            name,
        }
    }

    fn absorb(&mut self, effects: Vec<A::Effect>) -> Vec<(Handle, Op)> {
        let mut out = vec![];
        for e in effects {
            let r = e.split();
            let op = match &r {
                AnyReq::Http(r) => Op::Http(r.operation.clone()),
                AnyReq::Kv(r) => Op::Kv(r.operation.clone()),
                AnyReq::Platform(r) => Op::Platform(r.operation.clone()),
                AnyReq::Render(r) => Op::Render(r.operation.clone()),
                AnyReq::Time(r) => Op::Time(r.operation.clone()),
            };
            self.next += 1;
            self.reqs.insert(self.next, r);
            out.push((self.next, op));
        }
        out
    }
}

fn resolve_typed<A: crux_core::App>(core: &Core<A>, req: &mut AnyReq, r: Resp) -> Result<Vec<A::Effect>, String> {
    fn go<A: crux_core::App, O: crux_core::capability::Operation>(
        core: &Core<A>,
        req: &mut Request<O>,
        out: O::Output,
    ) -> Result<Vec<A::Effect>, String> {
        core.resolve(req, out).map_err(|e| e.to_string())
    }
    match (req, r) {
        (AnyReq::Http(q), Resp::Http(r)) => go(core, q, r),
        (AnyReq::Kv(q), Resp::Kv(r)) => go(core, q, r),
        (AnyReq::Platform(q), Resp::Platform(r)) => go(core, q, r),
        (AnyReq::Time(q), Resp::Time(r)) => go(core, q, r),
        _ => Err("response kind does not match the request".into()),
    }
}

impl<A: crux_core::App<Event = Event, ViewModel = ViewModel>> Shell for TypedShell<A>
where
    A::Effect: CapEffect,
    A::Capabilities: crux_core::WithContext<Event, A::Effect>,
{
    fn name(&self) -> &'static str {
        self.name
    }
    fn send(&mut self, job: &Job) -> Result<Vec<(Handle, Op)>, String> {
        let effects = self.core.process_event(Event::Do(job.clone()));
        Ok(self.absorb(effects))
    }
    fn respond(&mut self, h: Handle, r: Resp) -> Result<Vec<(Handle, Op)>, String> {
        let mut req = self.reqs.remove(&h).ok_or("unknown handle")?;
        let effects = resolve_typed(&self.core, &mut req, r)?;
        // keep the request object around (dropping it is a separate decision)
        self.reqs.insert(h, req);
        Ok(self.absorb(effects))
    }
    fn log(&mut self) -> Result<Vec<Outcome>, String> {
        Ok(self.core.view().log)
    }
    fn drop_request(&mut self, h: Handle) {
        self.reqs.remove(&h);
    }
}

// ---------------------------------------------------------------------------
// bridges
// ---------------------------------------------------------------------------

#[derive(Deserialize)]
struct WireRequest {
    id: u32,
    effect: Op,
}

pub fn bopts() -> impl bincode::Options + Copy {
    bincode::DefaultOptions::new()
        .with_fixint_encoding()
        .allow_trailing_bytes()
}

pub struct BridgeShell<A: crux_core::App<Event = Event, ViewModel = ViewModel>>
where
    A::Effect: CapEffect,
{
    pub bincode: Option<Bridge<A>>,
    pub json: Option<BridgeWithSerializer<A>>,
    last: Vec<u8>,
    name: &'static str,
}

impl<A: crux_core::App<Event = Event, ViewModel = ViewModel>> BridgeShell<A>
where
    A::Effect: CapEffect,
    A::Capabilities: crux_core::WithContext<Event, A::Effect>,
{
    pub fn new(json: bool, name: &'static str) -> Self {
        let core = Core::new();
        BridgeShell {
            bincode: if json { None } else { Some(Bridge::new(core)) },
            json: if json {
                Some(BridgeWithSerializer::new(Core::new()))
            } else {
                None
            },
            last: vec![],
            name,
        }
    }

    fn decode(&mut self, out: Vec<u8>) -> Result<Vec<(Handle, Op)>, String> {
        let reqs: Vec<WireRequest> = if self.bincode.is_some() {
            bopts().deserialize(&out).map_err(|e| format!("effects do not decode: {e}"))?
        } else {
            serde_json::from_slice(&out).map_err(|e| format!("effects do not decode: {e}"))?
        };
        self.last = out;
        Ok(reqs.into_iter().map(|r| (r.id as Handle, r.effect)).collect())
    }

    fn ser<T: Serialize>(&self, v: &T) -> Vec<u8> {
        if self.bincode.is_some() {
            bopts().serialize(v).expect("serialises")
        } else {
            serde_json::to_vec(v).expect("serialises")
        }
    }

    pub fn registry_len(&self) -> usize {
        match (&self.bincode, &self.json) {
            (Some(b), _) => b.verif_registry().len(),
            (_, Some(b)) => b.verif_registry().len(),
            _ => 0,
        }
    }

    pub fn registry(&self) -> Vec<(u32, crux_core::verif::RegistryKind)> {
        match (&self.bincode, &self.json) {
            (Some(b), _) => b.verif_registry(),
            (_, Some(b)) => b.verif_registry(),
            _ => vec![],
        }
    }

    pub fn executor_stats(&self) -> crux_core::verif::ExecutorStats {
        match (&self.bincode, &self.json) {
            (Some(b), _) => b.verif_executor_stats(),
            (_, Some(b)) => b.verif_executor_stats(),
            _ => unreachable!(),
        }
    }
}

impl<A: crux_core::App<Event = Event, ViewModel = ViewModel>> Shell for BridgeShell<A>
where
    A::Effect: CapEffect,
    A::Capabilities: crux_core::WithContext<Event, A::Effect>,
{
    fn name(&self) -> &'static str {
        self.name
    }
    fn send(&mut self, job: &Job) -> Result<Vec<(Handle, Op)>, String> {
        let bytes = self.ser(&Event::Do(job.clone()));
        let out = if let Some(b) = &self.bincode {
            b.process_event(&bytes).map_err(|e| e.to_string())?
        } else {
            let b = self.json.as_ref().unwrap();
            let mut out = vec![];
            let mut de = serde_json::Deserializer::from_slice(&bytes);
            let mut ser = serde_json::Serializer::new(&mut out);
            b.process_event(&mut de, &mut ser).map_err(|e| e.to_string())?;
            out
        };
        self.decode(out)
    }
    fn respond(&mut self, h: Handle, r: Resp) -> Result<Vec<(Handle, Op)>, String> {
        let bytes = match &r {
            Resp::Http(x) => self.ser(x),
            Resp::Kv(x) => self.ser(x),
            Resp::Platform(x) => self.ser(x),
            Resp::Time(x) => self.ser(x),
        };
        let out = if let Some(b) = &self.bincode {
            b.handle_response(h as u32, &bytes).map_err(|e| e.to_string())?
        } else {
            let b = self.json.as_ref().unwrap();
            let mut out = vec![];
            let mut de = serde_json::Deserializer::from_slice(&bytes);
            let mut ser = serde_json::Serializer::new(&mut out);
            b.handle_response(h as u32, &mut de, &mut ser)
                .map_err(|e| e.to_string())?;
            out
        };
        self.decode(out)
    }
    fn log(&mut self) -> Result<Vec<Outcome>, String> {
        let bytes = self.view_bytes().ok_or("no view")?;
        let v: ViewModel = if self.bincode.is_some() {
            bopts().deserialize(&bytes).map_err(|e| format!("view does not decode: {e}"))?
        } else {
            serde_json::from_slice(&bytes).map_err(|e| format!("view does not decode: {e}"))?
        };
        Ok(v.log)
    }
    fn last_batch_bytes(&self) -> Option<Vec<u8>> {
        Some(self.last.clone())
    }
    fn view_bytes(&mut self) -> Option<Vec<u8>> {
        if let Some(b) = &self.bincode {
            b.view().ok()
        } else {
            let b = self.json.as_ref().unwrap();
            let mut out = vec![];
            let mut ser = serde_json::Serializer::new(&mut out);
            b.view(&mut ser).ok()?;
            Some(out)
        }
    }
}

/// The shells a job can run on (legacy API jobs need the derive app)
pub fn all_shells() -> Vec<Box<dyn Shell>> {
    vec![
        Box::new(TypedShell::<AppD>::new("Core(derive)")),
        Box::new(TypedShell::<AppM>::new("Core(attribute)")),
        Box::new(BridgeShell::<AppD>::new(false, "Bridge bincode(derive)")),
        Box::new(BridgeShell::<AppM>::new(false, "Bridge bincode(attribute)")),
        Box::new(BridgeShell::<AppD>::new(true, "Bridge JSON(derive)")),
        Box::new(BridgeShell::<AppM>::new(true, "Bridge JSON(attribute)")),
    ]
}

pub fn supports_legacy(shell_name: &str) -> bool {
    shell_name.contains("derive")
}
