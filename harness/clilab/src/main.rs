//! C20: the CLI's type registry is a pure, closed function of the crate description.
//! Metamorphic runs of the real `codegen::run` (through the crux_verif entry point) over the
//! bundled rustdoc descriptions: consistent renumbering of all item ids, re-deserialisation
//! (fresh hash seeds => different map iteration orders), observed crate loading orders;
//! closure, variant-index contiguity in declaration order, agreement with traced schemas.

use std::cell::RefCell;
use std::collections::{BTreeMap, BTreeSet, HashMap};
use std::sync::{Arc, Mutex};
use std::time::Duration;

use rustdoc_types::{Crate, ItemEnum};
use serde_json::{json, Value};
use vcommon::{fnv64, hash_mix, Args, Report, Rng, Watchdog};

const FIXTURES: &str = "/repo/crux_cli/src/codegen/fixtures";
const EXAMPLES: [&str; 7] = ["bridge_echo", "cat_facts", "counter", "hello_world", "notes", "simple_counter", "tap_to_pay"];
const LIBS: [&str; 5] = ["crux_core", "crux_http", "crux_kv", "crux_platform", "crux_time"];

fn fixture_path(name: &str) -> Option<String> {
    if EXAMPLES.contains(&name) {
        Some(format!("{FIXTURES}/{name}/rustdoc.json"))
    } else if LIBS.contains(&name) {
        Some(format!("{FIXTURES}/{name}.json"))
    } else {
        None
    }
}

/// A bijection on item ids that is not monotone (so the *order* of ids changes too): either an
/// affine map on all of u32 (ids spread out, no two crates ever share a number) or a random
/// permutation onto the dense range 0..n (every crate uses the same small numbers, so numbers
/// collide between crates all the time, as they do in real rustdoc output)
#[derive(Clone)]
enum Perm {
    Identity,
    Affine { mult: u32, add: u32 },
    Table(HashMap<u64, u64>),
}

impl Perm {
    fn affine(rng: &mut Rng) -> Perm {
        Perm::Affine {
            mult: (rng.next_u64() as u32) | 1, // odd => invertible mod 2^32
            add: rng.next_u64() as u32,
        }
    }
    fn dense(doc: &Value, rng: &mut Rng) -> Perm {
        let mut ids = BTreeSet::new();
        let mut probe = doc.clone();
        collect_ids(&mut probe, &mut ids, true);
        let from: Vec<u64> = ids.into_iter().collect();
        let mut to: Vec<u64> = (0..from.len() as u64).collect();
        rng.shuffle(&mut to);
        Perm::Table(from.into_iter().zip(to).collect())
    }
    /// swap the numbers of some struct / enum items of this crate with the numbers that struct /
    /// enum items of *other* crates carry: forced cross-crate collisions between type items
    fn collide(doc: &Value, others: &[&Value], rng: &mut Rng, pairs: usize) -> Perm {
        fn type_ids(doc: &Value) -> Vec<u64> {
            let mut v = vec![];
            if let Some(index) = doc.get("index").and_then(|i| i.as_object()) {
                for (k, item) in index {
                    let inner = item.get("inner").and_then(|i| i.as_object());
                    if inner.map(|i| i.contains_key("struct") || i.contains_key("enum")).unwrap_or(false) {
                        if let Ok(n) = k.parse::<u64>() {
                            v.push(n);
                        }
                    }
                }
            }
            v.sort();
            v
        }
        let mine = type_ids(doc);
        let mut table: HashMap<u64, u64> = HashMap::new();
        if mine.is_empty() || others.is_empty() {
            return Perm::Identity;
        }
        for _ in 0..pairs {
            let theirs = type_ids(others[rng.usize_below(others.len())]);
            if theirs.is_empty() {
                continue;
            }
            let x = *rng.pick(&mine);
            let y = *rng.pick(&theirs);
            if x == y || table.contains_key(&x) || table.contains_key(&y) {
                continue;
            }
            // a transposition keeps the map a bijection whether or not y is in use in this crate
            table.insert(x, y);
            table.insert(y, x);
        }
        Perm::Table(table)
    }
    /// give a struct / enum item a number that code likes to use as a sentinel (0, 1, u32::MAX, ...)
    fn special(doc: &Value, rng: &mut Rng) -> Perm {
        let mut types = vec![];
        if let Some(index) = doc.get("index").and_then(|i| i.as_object()) {
            for (k, item) in index {
                let inner = item.get("inner").and_then(|i| i.as_object());
                if inner.map(|i| i.contains_key("struct") || i.contains_key("enum")).unwrap_or(false) {
                    if let Ok(n) = k.parse::<u64>() {
                        types.push(n);
                    }
                }
            }
        }
        types.sort();
        if types.is_empty() {
            return Perm::Identity;
        }
        let x = *rng.pick(&types);
        let y = *rng.pick(&[0u64, 0, 0, 1, u32::MAX as u64, 1 << 31]);
        let mut table = HashMap::new();
        if x != y {
            table.insert(x, y);
            table.insert(y, x);
        }
        Perm::Table(table)
    }
    /// swap the numbers of sibling items (two fields of one struct / variant, two variants of one
    /// enum), preferring siblings whose attributes differ: whatever is remembered per item number
    /// (attributes, skip status, kind) must follow the item, not the number
    fn siblings(doc: &Value, rng: &mut Rng, pairs: usize) -> Perm {
        fn groups(v: &Value, out: &mut Vec<Vec<u64>>) {
            match v {
                Value::Object(m) => {
                    for (k, x) in m {
                        if k == "fields" || k == "variants" {
                            if let Some(a) = x.as_array() {
                                let ids: Vec<u64> = a.iter().filter_map(|i| i.as_u64()).collect();
                                if ids.len() >= 2 {
                                    out.push(ids);
                                }
                            }
                        }
                        groups(x, out);
                    }
                }
                Value::Array(a) => a.iter().for_each(|x| groups(x, out)),
                _ => {}
            }
        }
        let mut gs = vec![];
        if let Some(index) = doc.get("index") {
            groups(index, &mut gs);
        }
        gs.sort();
        if gs.is_empty() {
            return Perm::Identity;
        }
        let attrs = |id: u64| doc["index"].get(id.to_string()).map(|i| i["attrs"].to_string()).unwrap_or_default();
        let differing: Vec<&Vec<u64>> = gs.iter().filter(|g| g.iter().any(|i| attrs(*i) != attrs(g[0]))).collect();
        let mut table: HashMap<u64, u64> = HashMap::new();
        for n in 0..pairs {
            let g: &Vec<u64> = if !differing.is_empty() && n % 2 == 0 { differing[rng.usize_below(differing.len())] } else { &gs[rng.usize_below(gs.len())] };
            let x = *rng.pick(g);
            let y = *rng.pick(g);
            if x == y || table.contains_key(&x) || table.contains_key(&y) {
                continue;
            }
            table.insert(x, y);
            table.insert(y, x);
        }
        Perm::Table(table)
    }
    fn identity() -> Perm {
        Perm::Identity
    }
    fn map(&self, id: u64) -> u64 {
        match self {
            Perm::Identity => id,
            Perm::Affine { mult, add } => (id as u32).wrapping_mul(*mult).wrapping_add(*add) as u64,
            Perm::Table(t) => *t.get(&id).unwrap_or(&id),
        }
    }
}

/// every item id that occurs in a description (same places `renumber` rewrites)
fn collect_ids(v: &mut Value, out: &mut BTreeSet<u64>, top: bool) {
    struct Collect<'a>(std::cell::RefCell<&'a mut BTreeSet<u64>>);
    // reuse the rewriting walk with a recording "permutation"
    let rec = Collect(std::cell::RefCell::new(out));
    fn walk(v: &Value, rec: &Collect, top: bool) {
        match v {
            Value::Object(map) => {
                for (k, val) in map {
                    if top && (k == "index" || k == "paths") {
                        if let Value::Object(inner) = val {
                            for (ik, iv) in inner {
                                if let Ok(n) = ik.parse::<u64>() {
                                    rec.0.borrow_mut().insert(n);
                                }
                                walk(iv, rec, false);
                            }
                        }
                        continue;
                    }
                    if top && k == "external_crates" {
                        continue;
                    }
                    if ID_SCALARS.contains(&k.as_str()) {
                        if let Some(n) = val.as_u64() {
                            rec.0.borrow_mut().insert(n);
                            continue;
                        }
                    }
                    if ID_LISTS.contains(&k.as_str()) {
                        if let Value::Array(xs) = val {
                            if xs.iter().all(|x| x.is_u64() || x.is_null()) {
                                for x in xs {
                                    if let Some(n) = x.as_u64() {
                                        rec.0.borrow_mut().insert(n);
                                    }
                                }
                                continue;
                            }
                        }
                    }
                    if k == "links" {
                        if let Value::Object(links) = val {
                            for lv in links.values() {
                                if let Some(n) = lv.as_u64() {
                                    rec.0.borrow_mut().insert(n);
                                }
                            }
                            continue;
                        }
                    }
                    walk(val, rec, false);
                }
            }
            Value::Array(xs) => xs.iter().for_each(|x| walk(x, rec, false)),
            _ => {}
        }
    }
    walk(v, &rec, top);
}

const ID_LISTS: [&str; 6] = ["items", "variants", "fields", "impls", "implementations", "tuple"];
const ID_SCALARS: [&str; 3] = ["id", "root", "parent"];

fn renumber(v: &mut Value, p: &Perm, top: bool) {
    match v {
        Value::Object(map) => {
            let keys: Vec<String> = map.keys().cloned().collect();
            for k in keys {
                if top && (k == "index" || k == "paths") {
                    // the keys of these two maps are ids
                    if let Some(Value::Object(inner)) = map.get_mut(&k) {
                        let old = std::mem::take(inner);
                        for (ik, mut iv) in old {
                            renumber(&mut iv, p, false);
                            let nk = ik.parse::<u64>().map(|n| p.map(n).to_string()).unwrap_or(ik);
                            inner.insert(nk, iv);
                        }
                    }
                    continue;
                }
                if top && k == "external_crates" {
                    continue; // crate ids, not item ids
                }
                let val = map.get_mut(&k).unwrap();
                if ID_SCALARS.contains(&k.as_str()) {
                    if let Some(n) = val.as_u64() {
                        *val = json!(p.map(n));
                        continue;
                    }
                }
                if ID_LISTS.contains(&k.as_str()) {
                    if let Value::Array(xs) = val {
                        if xs.iter().all(|x| x.is_u64() || x.is_null()) {
                            for x in xs.iter_mut() {
                                if let Some(n) = x.as_u64() {
                                    *x = json!(p.map(n));
                                }
                            }
                            continue;
                        }
                    }
                }
                if k == "links" {
                    if let Value::Object(links) = val {
                        for lv in links.values_mut() {
                            if let Some(n) = lv.as_u64() {
                                *lv = json!(p.map(n));
                            }
                        }
                        continue;
                    }
                }
                renumber(val, p, false);
            }
        }
        Value::Array(xs) => xs.iter_mut().for_each(|x| renumber(x, p, false)),
        _ => {}
    }
}

thread_local! {
    static LOAD_ORDER: RefCell<Vec<String>> = const { RefCell::new(Vec::new()) };
    static INDEX_ORDER: RefCell<u64> = const { RefCell::new(0) };
}

struct Texts {
    raw: HashMap<String, Value>,
}

impl Texts {
    fn load() -> Result<Texts, String> {
        let mut raw = HashMap::new();
        for n in EXAMPLES.iter().chain(LIBS.iter()) {
            let path = fixture_path(n).unwrap();
            let text = std::fs::read_to_string(&path).map_err(|e| format!("{path}: {e}"))?;
            raw.insert(n.to_string(), serde_json::from_str(&text).map_err(|e| format!("{path}: {e}"))?);
        }
        Ok(Texts { raw })
    }
}

/// One run of the real codegen over `example`, every crate renumbered with its own bijection
thread_local! {
    /// fault injection: the loader fails for this crate
    static FAIL_CRATE: RefCell<Option<String>> = const { RefCell::new(None) };
    /// description edits: (crate, item key, new value of the item's `inner`)
    static EDITS: RefCell<Vec<(String, String, Value)>> = const { RefCell::new(Vec::new()) };
}

fn run_codegen(texts: &Texts, example: &str, perms: &HashMap<String, Perm>) -> Result<(Value, Vec<String>, HashMap<String, Crate>), String> {
    LOAD_ORDER.with(|l| l.borrow_mut().clear());
    let loaded: RefCell<HashMap<String, Crate>> = RefCell::new(HashMap::new());
    let registry = crux_cli::codegen::verif_run(example, |name| {
        LOAD_ORDER.with(|l| l.borrow_mut().push(name.to_string()));
        if FAIL_CRATE.with(|f| f.borrow().as_deref() == Some(name)) {
            anyhow::bail!("injected fault: the description of crate `{name}` is unavailable");
        }
        let Some(v) = texts.raw.get(name) else {
            anyhow::bail!("crate `{name}` is not among the bundled descriptions");
        };
        let mut v = v.clone();
        EDITS.with(|e| {
            for (c, item, inner) in e.borrow().iter() {
                if c == name {
                    v["index"][item.as_str()]["inner"] = inner.clone();
                }
            }
        });
        renumber(&mut v, perms.get(name).unwrap_or(&Perm::identity()), true);
        // a fresh deserialisation: new HashMap seeds, hence new iteration orders
        let c: Crate = serde_json::from_value(v)?;
        let order: Vec<u32> = c.index.keys().take(24).map(|k| k.0).collect();
        INDEX_ORDER.with(|o| *o.borrow_mut() = fnv64(format!("{order:?}").as_bytes()));
        let again: Crate = serde_json::from_value(serde_json::to_value(&c)?)?;
        loaded.borrow_mut().insert(name.to_string(), again);
        Ok(c)
    })
    .map_err(|e| format!("{e:#}"))?;
    let value = serde_json::to_value(&registry).map_err(|e| e.to_string())?;
    let order = LOAD_ORDER.with(|l| l.borrow().clone());
    Ok((value, order, loaded.into_inner()))
}

fn type_names(v: &Value, out: &mut BTreeSet<String>) {
    match v {
        Value::Object(m) => {
            for (k, x) in m {
                if k == "TYPENAME" {
                    if let Some(s) = x.as_str() {
                        out.insert(s.to_string());
                    }
                }
                type_names(x, out);
            }
        }
        Value::Array(xs) => xs.iter().for_each(|x| type_names(x, out)),
        _ => {}
    }
}

fn has_serde_skip(attrs: &[String]) -> bool {
    attrs.iter().any(|a| {
        let a = a.replace(' ', "");
        a.contains("serde(skip)") || a.contains("serde(skip,") || a.contains(",skip)") || a.contains("serde(skip_deserializing") || a.contains("serde(skip_serializing)")
    })
}

/// variant names of an enum in declaration order, skipped variants removed
fn declared_variants(c: &Crate, enum_name: &str) -> Vec<Vec<String>> {
    let mut found = vec![];
    for item in c.index.values() {
        if item.name.as_deref() != Some(enum_name) {
            continue;
        }
        if let ItemEnum::Enum(e) = &item.inner {
            let mut names = vec![];
            for vid in &e.variants {
                if let Some(v) = c.index.get(vid) {
                    if has_serde_skip(&v.attrs) {
                        continue;
                    }
                    names.push(v.name.clone().unwrap_or_default());
                }
            }
            found.push(names);
        }
    }
    found
}

fn registry_variants(entry: &Value) -> Option<Vec<(u32, String)>> {
    let e = entry.get("ENUM")?.as_object()?;
    let mut v: Vec<(u32, String)> = vec![];
    for (k, x) in e {
        let idx: u32 = k.parse().ok()?;
        let name = x.as_object()?.keys().next()?.clone();
        v.push((idx, name));
    }
    v.sort();
    Some(v)
}

fn traced_protocol_registry() -> Result<Value, String> {
    use crux_core::typegen::{State, TypeGen};
    let mut g = TypeGen::new();
    macro_rules! reg {
        ($($t:ty),*) => { $( g.register_type::<$t>().map_err(|e| e.to_string())?; )* };
    }
    use crux_core::capability::Operation;
    crux_http::protocol::HttpRequest::register_types(&mut g).map_err(|e| e.to_string())?;
    crux_kv::KeyValueOperation::register_types(&mut g).map_err(|e| e.to_string())?;
    crux_time::TimeRequest::register_types(&mut g).map_err(|e| e.to_string())?;
    crux_platform::PlatformRequest::register_types(&mut g).map_err(|e| e.to_string())?;
    crux_core::render::RenderOperation::register_types(&mut g).map_err(|e| e.to_string())?;
    reg!(crux_http::protocol::HttpHeader);
    let State::Registering(tracer, _) = std::mem::replace(&mut g.state, State::Generating(Default::default())) else {
        return Err("unexpected state".into());
    };
    let reg = tracer.registry().map_err(|e| e.to_string())?;
    serde_json::to_value(&reg).map_err(|e| e.to_string())
}

/// what the generator must say for a primitive type (64-bit target), written down independently
fn primitive_format(p: &str) -> Option<&'static str> {
    Some(match p {
        "bool" => "BOOL",
        "char" => "CHAR",
        "i8" => "I8",
        "i16" => "I16",
        "i32" => "I32",
        "i64" | "isize" => "I64",
        "i128" => "I128",
        "u8" => "U8",
        "u16" => "U16",
        "u32" => "U32",
        "u64" | "usize" => "U64",
        "u128" => "U128",
        _ => return None,
    })
}

/// the places where two registries differ: (path, old, new), descending only where both sides
/// are containers of the same shape
fn registry_diff(a: &Value, b: &Value, path: &mut Vec<String>, out: &mut Vec<(String, Value, Value)>) {
    match (a, b) {
        (Value::Object(x), Value::Object(y)) if x.keys().eq(y.keys()) => {
            for (k, xv) in x {
                path.push(k.clone());
                registry_diff(xv, &y[k], path, out);
                path.pop();
            }
        }
        (Value::Array(x), Value::Array(y)) if x.len() == y.len() => {
            for (i, (xv, yv)) in x.iter().zip(y).enumerate() {
                path.push(i.to_string());
                registry_diff(xv, yv, path, out);
                path.pop();
            }
        }
        _ => {
            if a != b {
                out.push((path.join("/"), a.clone(), b.clone()));
            }
        }
    }
}

/// entry by entry: differences inside the entries both registries have, and the names of the
/// entries only one of them has (a type nobody refers to any more leaves the registry)
fn entries_diff(a: &Value, b: &Value) -> (Vec<(String, Value, Value)>, Vec<String>, Vec<String>) {
    let (x, y) = (a.as_object().cloned().unwrap_or_default(), b.as_object().cloned().unwrap_or_default());
    let mut diffs = vec![];
    for (k, xv) in &x {
        if let Some(yv) = y.get(k) {
            registry_diff(xv, yv, &mut vec![k.clone()], &mut diffs);
        }
    }
    let removed = x.keys().filter(|k| !y.contains_key(*k)).cloned().collect();
    let added = y.keys().filter(|k| !x.contains_key(*k)).cloned().collect();
    (diffs, removed, added)
}

fn at_path<'a>(v: &'a Value, path: &str) -> Option<&'a Value> {
    let mut cur = v;
    for seg in path.split('/') {
        cur = match cur {
            Value::Object(m) => m.get(seg)?,
            Value::Array(a) => a.get(seg.parse::<usize>().ok()?)?,
            _ => return None,
        };
    }
    Some(cur)
}

fn find_path_id(v: &Value, path_name: &str) -> Option<u64> {
    match v {
        Value::Object(m) => {
            if let Some(rp) = m.get("resolved_path") {
                if rp["path"].as_str() == Some(path_name) {
                    if let Some(id) = rp["id"].as_u64() {
                        return Some(id);
                    }
                }
            }
            m.values().find_map(|x| find_path_id(x, path_name))
        }
        Value::Array(xs) => xs.iter().find_map(|x| find_path_id(x, path_name)),
        _ => None,
    }
}

fn generic(path: &str, id: u64, arg: Value) -> Value {
    json!({"resolved_path": {"path": path, "id": id, "args": {"angle_bracketed": {"args": [{"type": arg}], "constraints": []}}}})
}

/// (f) edits of a description with a known effect on the registry. A field's primitive type is
/// replaced (every supported primitive, `isize` included), a field's type is wrapped in `Option` /
/// `Vec` (also twice: `Option<Option<T>>`), a one-field variant loses its field (`V()`, `V {}`).
/// A control edit first shows where in the registry the field is visible at all.
fn description_edits(texts: &Texts, example: &str, closure: &[String], base_reg: &Value, budget: u64, worker: u64, workers: u64, seed: u64, ei: u64, report: &Arc<Mutex<Report>>, wd: &Watchdog) {
    let run = |edits: Vec<(String, String, Value)>| -> Result<Value, String> {
        EDITS.with(|e| *e.borrow_mut() = edits);
        let r = vcommon::trap(|| run_codegen(texts, example, &HashMap::new()));
        EDITS.with(|e| e.borrow_mut().clear());
        match r {
            Ok(Ok((reg, _, _))) => Ok(reg),
            Ok(Err(e)) => Err(format!("failed: {e}")),
            Err(p) => Err(format!("panicked: {p}")),
        }
    };
    // candidates: (crate, item key, kind)
    let mut fields: Vec<(String, String, Value)> = vec![];
    let mut variants: Vec<(String, String, Value)> = vec![];
    for c in closure {
        let Some(v) = texts.raw.get(c) else { continue };
        let Some(index) = v["index"].as_object() else { continue };
        let mut keys: Vec<&String> = index.keys().collect();
        keys.sort();
        for k in keys {
            let inner = &index[k]["inner"];
            if let Some(t) = inner.get("struct_field") {
                fields.push((c.clone(), k.clone(), t.clone()));
            } else if let Some(var) = inner.get("variant") {
                if var["kind"].get("tuple").and_then(|t| t.as_array()).map(|t| t.len() == 1 && !t[0].is_null()).unwrap_or(false) {
                    variants.push((c.clone(), k.clone(), inner.clone()));
                }
            }
        }
    }
    const PRIMS: [&str; 14] = ["bool", "char", "i8", "i16", "i32", "i64", "i128", "isize", "u8", "u16", "u32", "u64", "u128", "usize"];
    for t in (0..budget).filter(|t| t % workers == worker) {
        let mut rng = Rng::derive(seed ^ 0xed17, ei, t);
        let kind = t % 4;
        if kind == 3 {
            // ---- a variant that keeps its place but has nothing left to serialise ----
            if variants.is_empty() {
                continue;
            }
            let (c, k, inner) = rng.pick(&variants).clone();
            let mut edited = inner.clone();
            let struct_like = rng.chance(1, 2);
            edited["variant"]["kind"] = if struct_like { json!({"struct": {"fields": [], "has_stripped_fields": false}}) } else { json!({"tuple": []}) };
            wd.begin(|| json!({"lane": "clilab", "example": example, "edit": "empty-variant", "crate": c, "item": k}).to_string());
            let res = run(vec![(c.clone(), k.clone(), edited)]);
            wd.end();
            let mut r = report.lock().unwrap();
            r.eval();
            r.count("description_edits.variant_emptied", 1);
            match res {
                Ok(reg) => {
                    let mut holes = vec![];
                    for (name, entry) in reg.as_object().cloned().unwrap_or_default() {
                        if let Some(vars) = registry_variants(&entry) {
                            let idxs: Vec<u32> = vars.iter().map(|(i, _)| *i).collect();
                            if idxs != (0..vars.len() as u32).collect::<Vec<_>>() {
                                holes.push((name, idxs));
                            }
                        }
                    }
                    let (diffs, _removed, added) = entries_diff(base_reg, &reg);
                    if !holes.is_empty() {
                        r.violation(
                            &format!("registry/variant-indices-not-contiguous-after-edit/{}", if struct_like { "V{}" } else { "V()" }),
                            &format!("{example}: after a one-field variant was turned into {} the variant indices are {holes:?}", if struct_like { "V {}" } else { "V()" }),
                            json!({"lane": "clilab", "example": example, "crate": c, "item": k}),
                        );
                    } else if diffs.iter().any(|(_, _, new)| !(new == "UNIT" || *new == json!({"STRUCT": []}) || *new == json!({"TUPLE": []}))) || !added.is_empty() {
                        // (serde writes `V`, `V()` and `V {}` alike - the variant index and nothing else)
                        r.violation(
                            "registry/emptied-variant-not-unit",
                            &format!("{example}: a variant without fields is not described as a unit variant: {:?}", diffs.iter().take(3).collect::<Vec<_>>()),
                            json!({"lane": "clilab", "example": example, "crate": c, "item": k}),
                        );
                    } else {
                        if !diffs.is_empty() {
                            r.count("description_edits.visible", 1);
                        }
                        r.nontrivial(hash_mix(hash_mix(fnv64(example.as_bytes()), fnv64(k.as_bytes())), 3));
                    }
                }
                Err(e) => r.violation("codegen-failed-after-edit/empty-variant", &format!("{example}: codegen {e}"), json!({"lane": "clilab", "example": example, "crate": c, "item": k})),
            }
            continue;
        }
        // ---- field edits ----
        let prim_fields: Vec<&(String, String, Value)> = fields.iter().filter(|f| f.2.get("primitive").and_then(|p| p.as_str()).and_then(primitive_format).is_some()).collect();
        // pick a field that shows in this example's registry (most fields of the dependent crates do
        // not): up to eight candidates, each tried with a control edit
        let mut found = None;
        for _attempt in 0..8 {
            let (c, k, ty) = if kind == 0 && !prim_fields.is_empty() { (*rng.pick(&prim_fields)).clone() } else if !fields.is_empty() { rng.pick(&fields).clone() } else { break };
            let old_prim = ty.get("primitive").and_then(|p| p.as_str()).map(|s| s.to_string());
            // control: is the field visible in the registry, and where?
            let control_prim = if old_prim.as_deref() == Some("bool") { "char" } else { "bool" };
            wd.begin(|| json!({"lane": "clilab", "example": example, "edit": "control", "crate": c, "item": k}).to_string());
            let control = run(vec![(c.clone(), k.clone(), json!({"struct_field": {"primitive": control_prim}}))]);
            wd.end();
            let mut r = report.lock().unwrap();
            r.eval();
            r.count("description_edits.control_runs", 1);
            let control_paths: BTreeSet<String> = match &control {
                Ok(reg) => entries_diff(base_reg, reg).0.into_iter().map(|x| x.0).collect(),
                Err(_) => BTreeSet::new(),
            };
            if control_paths.is_empty() {
                r.count("description_edits.field_not_visible_in_registry", 1);
                continue;
            }
            if control_paths.iter().any(|p| p.starts_with("Effect/")) {
                // the payload of an `Effect` variant is the macro-generated request wrapper, which the
                // generator treats specially (operation and output types are looked up through it): an
                // edited payload is not a description any crux app can have
                r.count("description_edits.effect_payloads_left_alone", 1);
                continue;
            }
            found = Some((c, k, ty, old_prim, control_paths));
            break;
        }
        let Some((c, k, ty, old_prim, control_paths)) = found else { continue };
        wd.begin(|| json!({"lane": "clilab", "example": example, "edit": "field", "crate": c, "item": k}).to_string());
        // the edit proper, with its predicted effect
        let (new_ty, what, predict): (Value, String, Box<dyn Fn(&Value) -> Value>) = if kind == 0 && old_prim.is_some() {
            let old = old_prim.clone().unwrap();
            let cands: Vec<&&str> = PRIMS.iter().filter(|p| primitive_format(p) != primitive_format(&old)).collect();
            let to = **rng.pick(&cands);
            let f = primitive_format(to).unwrap();
            (json!({"primitive": to}), format!("{old} -> {to}"), Box::new(move |_old: &Value| json!(f)))
        } else {
            let raw = &texts.raw[&c];
            let (opt, vec) = (find_path_id(raw, "Option"), find_path_id(raw, "Vec"));
            let shape = rng.below(5);
            match (shape, opt, vec) {
                (0, Some(o), _) => (generic("Option", o, ty.clone()), "T -> Option<T>".into(), Box::new(|old: &Value| json!({"OPTION": old}))),
                (1, Some(o), _) => (generic("Option", o, generic("Option", o, ty.clone())), "T -> Option<Option<T>>".into(), Box::new(|old: &Value| json!({"OPTION": {"OPTION": old}}))),
                (2, _, Some(v)) => (generic("Vec", v, ty.clone()), "T -> Vec<T>".into(), Box::new(|old: &Value| json!({"SEQ": old}))),
                (3, Some(o), Some(v)) => (generic("Vec", v, generic("Option", o, ty.clone())), "T -> Vec<Option<T>>".into(), Box::new(|old: &Value| json!({"SEQ": {"OPTION": old}}))),
                (_, Some(o), Some(v)) => (generic("Option", o, generic("Vec", v, ty.clone())), "T -> Option<Vec<T>>".into(), Box::new(|old: &Value| json!({"OPTION": {"SEQ": old}}))),
                _ => {
                    wd.end();
                    continue;
                }
            }
        };
        let res = run(vec![(c.clone(), k.clone(), json!({"struct_field": new_ty}))]);
        wd.end();
        let mut r = report.lock().unwrap();
        r.eval();
        r.count("description_edits.field_edits", 1);
        r.set("description_edit_kinds", if kind == 0 && old_prim.is_some() { format!("primitive {what}") } else { what.clone() });
        match res {
            Ok(reg) => {
                let (diffs, removed, added) = entries_diff(base_reg, &reg);
                // everything that changed lies where the control edit showed the field ...
                let paths: BTreeSet<String> = diffs.iter().map(|d| d.0.clone()).filter(|p| !control_paths.iter().any(|c| p == c || p.starts_with(&format!("{c}/")))).collect();
                // ... and there the registry says what was predicted
                let wrong: Vec<(String, Value, Value)> = control_paths
                    .iter()
                    .filter_map(|c| {
                        let old = at_path(base_reg, c)?.clone();
                        let new = at_path(&reg, c).cloned().unwrap_or(Value::Null);
                        if new != predict(&old) { Some((c.clone(), old, new)) } else { None }
                    })
                    .collect();
                // (types nobody refers to any more may leave the registry - the protocol types behind an
                // `Effect` variant whose payload is no longer a plain operation, say - but what is left
                // must be closed)
                let _ = removed;
                let mut refs = BTreeSet::new();
                type_names(&reg, &mut refs);
                let dangling: Vec<&String> = refs.iter().filter(|t| reg.get(t.as_str()).is_none() && !(LIBS.contains(&example) && *t == "Effect")).collect();
                if paths.is_empty() && wrong.is_empty() && added.is_empty() && !dangling.is_empty() {
                    // the edit did what was predicted, but a type the field refers to lost its entry
                    r.violation(
                        &format!("registry/not-closed-after-field-edit/{}", dangling.iter().map(|s| s.as_str()).collect::<Vec<_>>().join("+")),
                        &format!("{example}: after the type of a field was edited ({what}) the registry refers to {dangling:?} without defining it (the field shows at {:?})", control_paths.iter().take(4).collect::<Vec<_>>()),
                        json!({"lane": "clilab", "example": example, "crate": c, "item": k, "edit": what, "undefined": dangling}),
                    );
                } else if !paths.is_empty() || !wrong.is_empty() || !added.is_empty() || !dangling.is_empty() {
                    r.violation(
                        &format!("registry/field-edit-has-unexpected-effect/{}", if kind == 0 && old_prim.is_some() { "primitive".to_string() } else { what.replace(' ', "") }),
                        &format!("{example}: the type of a field was edited ({what}); the registry also changed at {:?} (the field shows at {:?}); not as predicted: {:?}; entries added {added:?}; referenced but not defined {dangling:?}", paths.iter().take(4).collect::<Vec<_>>(), control_paths.iter().take(4).collect::<Vec<_>>(), wrong.iter().take(3).collect::<Vec<_>>()),
                        json!({"lane": "clilab", "example": example, "crate": c, "item": k, "edit": what}),
                    );
                } else {
                    r.count("description_edits.visible", 1);
                    r.nontrivial(hash_mix(hash_mix(fnv64(example.as_bytes()), fnv64(k.as_bytes())), fnv64(what.as_bytes())));
                }
            }
            Err(e) => r.violation(&format!("codegen-failed-after-edit/{}", what.replace(' ', "")), &format!("{example}: after the edit {what} codegen {e}"), json!({"lane": "clilab", "example": example, "crate": c, "item": k, "edit": what})),
        }
    }
}

fn main() {
    let args = Args::parse();
    if args.prop == "noop" {
        return;
    }
    vcommon::install_panic_hook();
    let report = Arc::new(Mutex::new(Report::new(&args.prop)));
    let wd = Watchdog::start(report.clone(), args.out.clone(), Duration::from_secs(600));
    let texts = match Texts::load() {
        Ok(t) => t,
        Err(e) => {
            report.lock().unwrap().inconclusive(format!("bundled descriptions not readable: {e}"));
            report.lock().unwrap().finish(&args);
            return;
        }
    };
    let traced = traced_protocol_registry();
    // transformations per description (all workers together); worker w takes t = w, w + W, ...
    let per_example = args.budget.unwrap_or(if args.thorough() { 480 } else { 15 });
    let seed = args.worker_seed();
    // roots: the seven bundled apps, and the capability crates on their own (no app in them)
    for (ei, example) in EXAMPLES.iter().chain(LIBS.iter()).enumerate() {
        wd.begin(|| json!({"lane": "clilab", "example": example, "phase": "baseline"}).to_string());
        let base = vcommon::trap(|| run_codegen(&texts, example, &HashMap::new()));
        wd.end();
        let mut r = report.lock().unwrap();
        r.eval();
        let (base_reg, base_order, crates) = match base {
            Ok(Ok(x)) => x,
            Ok(Err(e)) => {
                if e.contains("not among the bundled descriptions") {
                    r.inconclusive(format!("{example}: needs a crate description that is not bundled: {e}"));
                } else {
                    r.violation(&format!("codegen-failed/{example}"), &e, json!({"lane": "clilab", "example": example}));
                }
                continue;
            }
            Err(p) => {
                r.violation(&format!("panic/{}", vcommon::panic_site(&p)), &format!("codegen panicked on {example}: {p}"), json!({"lane": "clilab", "example": example}));
                continue;
            }
        };
        r.set("descriptions", *example);
        r.set("load_orders", format!("{example}:{}", base_order.join(">")));
        let entries = base_reg.as_object().cloned().unwrap_or_default();
        r.count("registry_entries", entries.len() as u64);
        // (b) closure
        let mut refs = BTreeSet::new();
        type_names(&base_reg, &mut refs);
        for t in &refs {
            r.count("type_references_checked", 1);
            // a capability crate on its own has no app, hence no `Effect` for the bridge's generic
            // `Request<Effect>` to refer to: not an input the property speaks about
            if LIBS.contains(example) && t == "Effect" {
                continue;
            }
            if !entries.contains_key(t) {
                r.violation(
                    &format!("registry/not-closed/{example}"),
                    &format!("{example}: type `{t}` is referenced but not defined in the registry"),
                    json!({"lane": "clilab", "example": example, "missing": t}),
                );
            }
        }
        // (c) variant indices contiguous from zero, in declaration order
        for (name, entry) in &entries {
            let Some(vars) = registry_variants(entry) else { continue };
            r.count("enums_checked", 1);
            let idxs: Vec<u32> = vars.iter().map(|(i, _)| *i).collect();
            if idxs != (0..vars.len() as u32).collect::<Vec<_>>() {
                r.violation(
                    &format!("registry/variant-indices-not-contiguous/{example}"),
                    &format!("{example}: enum {name} has variant indices {idxs:?}"),
                    json!({"lane": "clilab", "example": example, "enum": name}),
                );
            }
            let names: Vec<String> = vars.iter().map(|(_, n)| n.clone()).collect();
            let mut declared: Vec<Vec<String>> = vec![];
            for c in crates.values() {
                declared.extend(declared_variants(c, name));
            }
            // renamed containers / variants cannot be matched by name: only judge when the names line up as a set
            let as_set: BTreeSet<&String> = names.iter().collect();
            let candidates: Vec<&Vec<String>> = declared.iter().filter(|d| d.iter().collect::<BTreeSet<_>>() == as_set).collect();
            if let Some(d) = candidates.first() {
                r.count("enums_compared_with_declaration_order", 1);
                if candidates.iter().all(|c| **c != names) {
                    r.violation(
                        &format!("registry/variant-order-differs-from-declaration/{example}"),
                        &format!("{example}: enum {name} is numbered {names:?}, declared {d:?}"),
                        json!({"lane": "clilab", "example": example, "enum": name}),
                    );
                }
            }
        }
        // (d) protocol types equal the schema traced from the real serde implementations
        match &traced {
            Ok(t) => {
                // a capability crate's own registry must contain its protocol types at all: the
                // operation, its output and what they refer to
                let own: &[&str] = match *example {
                    "crux_core" => &["RenderOperation"],
                    "crux_http" => &["HttpRequest", "HttpHeader", "HttpResult", "HttpResponse", "HttpError"],
                    "crux_kv" => &["KeyValueOperation", "KeyValueResult", "KeyValueResponse", "KeyValueError", "Value"],
                    "crux_platform" => &["PlatformRequest", "PlatformResponse"],
                    "crux_time" => &["TimeRequest", "TimeResponse", "TimerId", "Instant", "Duration"],
                    _ => &[],
                };
                for name in own {
                    r.count("own_protocol_types_required", 1);
                    if !entries.contains_key(*name) && t.get(*name).is_some() {
                        r.violation(
                            &format!("registry/protocol-type-missing/{name}"),
                            &format!("{example}: the registry derived from the capability crate's own description lacks its protocol type {name}"),
                            json!({"lane": "clilab", "example": example, "type": name}),
                        );
                    }
                }
                for (name, entry) in &entries {
                    if let Some(real) = t.get(name) {
                        // only the types that really are the shipped protocol types (same shape of name)
                        let shipped = ["HttpRequest", "HttpResponse", "HttpResult", "HttpError", "HttpHeader", "KeyValueOperation", "KeyValueResult", "KeyValueResponse", "KeyValueError", "Value", "TimeRequest", "TimeResponse", "TimerId", "Instant", "Duration", "RenderOperation", "PlatformRequest", "PlatformResponse"];
                        if !shipped.contains(&name.as_str()) {
                            continue;
                        }
                        r.count("protocol_types_compared_with_traced_schema", 1);
                        r.set("protocol_types", name.clone());
                        if real != entry {
                            r.violation(
                                &format!("registry/protocol-type-differs-from-traced-schema/{name}"),
                                &format!("{example}: the registry entry of {name} differs from the schema traced from its serde implementation"),
                                json!({"lane": "clilab", "example": example, "type": name, "registry": entry, "traced": real}),
                            );
                        }
                    }
                }
            }
            Err(e) => r.inconclusive(format!("tracing the real protocol types failed: {e}")),
        }
        drop(r);

        // (a) metamorphic runs
        let mut index_orders: BTreeSet<u64> = BTreeSet::new();
        for t in (0..per_example).filter(|t| t % args.workers == args.worker) {
            let mut rng = Rng::derive(args.seed, ei as u64, t);
            let mut perms = HashMap::new();
            let renumbered = t % 5 != 0;
            if renumbered {
                // spread-out numbers, dense numbers, or forced collisions between the type items of the
                // crates in this example's closure
                let style = t % 5;
                let closure: Vec<&str> = base_order.iter().map(|s| s.as_str()).collect();
                for n in EXAMPLES.iter().chain(LIBS.iter()) {
                    let p = match style {
                        1 => Perm::affine(&mut rng),
                        2 => Perm::dense(&texts.raw[*n], &mut rng),
                        4 => {
                            if closure.contains(n) {
                                Perm::siblings(&texts.raw[*n], &mut rng, 6)
                            } else {
                                Perm::identity()
                            }
                        }
                        _ => {
                            if closure.contains(n) && (t / 5) % 2 == 1 {
                                Perm::special(&texts.raw[*n], &mut rng)
                            } else if closure.contains(n) {
                                let others: Vec<&Value> = closure.iter().filter(|c| *c != n).filter_map(|c| texts.raw.get(*c)).collect();
                                Perm::collide(&texts.raw[*n], &others, &mut rng, 3)
                            } else {
                                Perm::identity()
                            }
                        }
                    };
                    perms.insert(n.to_string(), p);
                }
                let mut r = report.lock().unwrap();
                r.count(match style { 1 => "affine_renumberings", 2 => "dense_renumberings", 4 => "sibling_swap_renumberings", _ => if (t / 5) % 2 == 1 { "sentinel_number_renumberings" } else { "forced_cross_crate_collision_renumberings" } }, 1);
                drop(r);
            }
            wd.begin(|| json!({"lane": "clilab", "example": example, "transform": t, "renumbered": renumbered}).to_string());
            let res = vcommon::trap(|| run_codegen(&texts, example, &perms));
            wd.end();
            let mut r = report.lock().unwrap();
            r.eval();
            r.count("transformed_runs", 1);
            if renumbered {
                r.count("renumbered_runs", 1);
            }
            index_orders.insert(INDEX_ORDER.with(|o| *o.borrow()));
            match res {
                Ok(Ok((reg, order, _))) => {
                    r.set("load_orders", format!("{example}:{}", order.join(">")));
                    if reg == base_reg {
                        r.nontrivial(hash_mix(hash_mix(fnv64(example.as_bytes()), t), seed));
                    } else {
                        let differing: Vec<String> = entries
                            .keys()
                            .filter(|k| reg.get(*k) != base_reg.get(*k))
                            .cloned()
                            .chain(reg.as_object().map(|m| m.keys().filter(|k| !entries.contains_key(*k)).cloned().collect::<Vec<_>>()).unwrap_or_default())
                            .take(8)
                            .collect();
                        r.violation(
                            &format!("registry/depends-on-{}/{example}", if renumbered { "item-numbering" } else { "visiting-order" }),
                            &format!("{example}: the registry changed under a {} (entries {differing:?})", if renumbered { "consistent renumbering of item ids" } else { "re-run with fresh map orders" }),
                            json!({"lane": "clilab", "example": example, "renumbered": renumbered, "differing_entries": differing, "load_order": order, "seed": seed, "transform": t,
                                "swaps": perms.iter().filter_map(|(c, p)| match p { Perm::Table(t) if t.len() <= 8 && !t.is_empty() => Some((c.clone(), t.iter().map(|(a, b)| {
                                    let name = |id: u64| texts.raw[c]["index"].get(id.to_string()).and_then(|i| i["name"].as_str().map(|s| s.to_string())).unwrap_or_else(|| "-".into());
                                    format!("{a}({})->{b}({})", name(*a), name(*b)) }).collect::<Vec<_>>())), _ => None }).collect::<Vec<_>>()}),
                        );
                    }
                }
                Ok(Err(e)) => r.violation(&format!("codegen-failed-after-transformation/{example}"), &e, json!({"lane": "clilab", "example": example, "renumbered": renumbered})),
                Err(p) => r.violation(&format!("panic/{}", vcommon::panic_site(&p)), &format!("codegen panicked: {p}"), json!({"lane": "clilab", "example": example})),
            }
        }
        // (e) a dependent crate whose description cannot be loaded: the run fails, or whatever it
        // hands out is still closed (sharded like the transformations)
        for (di, dep) in base_order.iter().enumerate().skip(1) {
            if (di as u64) % args.workers != args.worker {
                continue;
            }
            FAIL_CRATE.with(|f| *f.borrow_mut() = Some(dep.clone()));
            let res = vcommon::trap(|| run_codegen(&texts, example, &HashMap::new()));
            FAIL_CRATE.with(|f| *f.borrow_mut() = None);
            let mut r = report.lock().unwrap();
            r.eval();
            r.count("load_failures_injected", 1);
            match res {
                Ok(Err(_)) => {
                    r.count("load_failures_reported_as_errors", 1);
                    r.nontrivial(hash_mix(fnv64(example.as_bytes()), fnv64(dep.as_bytes())));
                }
                Ok(Ok((reg, _, _))) => {
                    let defined = reg.as_object().cloned().unwrap_or_default();
                    let mut refs = BTreeSet::new();
                    type_names(&reg, &mut refs);
                    let missing: Vec<&String> = refs.iter().filter(|t| !defined.contains_key(*t)).collect();
                    if missing.is_empty() {
                        r.nontrivial(hash_mix(fnv64(example.as_bytes()), fnv64(dep.as_bytes())));
                    } else {
                        r.violation(
                            &format!("registry/not-closed-after-load-failure/{example}"),
                            &format!("{example}: the description of `{dep}` could not be loaded, yet a registry was handed out in which {missing:?} are referenced but not defined"),
                            json!({"lane": "clilab", "example": example, "unavailable_crate": dep, "missing": missing}),
                        );
                    }
                }
                Err(p) => r.violation(&format!("panic/{}", vcommon::panic_site(&p)), &format!("codegen panicked when `{dep}` could not be loaded: {p}"), json!({"lane": "clilab", "example": example, "unavailable_crate": dep})),
            }
        }
        // (f) description edits with a predicted effect
        description_edits(&texts, example, &base_order, &base_reg, args.extra_u64("edits", if args.thorough() { 400 } else { 12 }), args.worker, args.workers, seed, ei as u64, &report, &wd);
        let mut r = report.lock().unwrap();
        r.count("distinct_index_iteration_orders_seen", index_orders.len() as u64);
        r.sample(|| json!({"example": example, "registry_entries": entries.len(), "load_order": base_order}));
    }
    let mut r = report.lock().unwrap();
    if let Some(lo) = r.sets.get("load_orders") {
        let n = lo.len() as u64;
        r.count("distinct_crate_load_orders_seen", n);
    }
    r.finish(&args);
}

#[allow(dead_code)]
fn unused(_: BTreeMap<u8, u8>) {}
