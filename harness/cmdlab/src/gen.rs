//! Random program generator. Only produces programs for which the order-insensitive
//! reference model has a unique per-step outcome (constraints G1-G9 in DESIGN.md §3.1).

use vcommon::Rng;

use crate::ast::*;

#[derive(Clone, Debug)]
pub struct GenCfg {
    pub max_nodes: usize,
    pub max_depth: usize,
    /// `Abortable` wrappers (driver-side abort handles)
    pub abortable: bool,
    /// events whose `update` returns a follow-up program (core hosts)
    pub event_then: bool,
    /// FuturesUnordered class constructs (known finding for C07)
    pub fu: bool,
    /// legacy capability API programs: scripts only
    pub legacy: bool,
    pub scripts: bool,
    /// `JoinHandle::abort` inside scripts
    pub task_abort: bool,
    /// weight of async scripts relative to the default
    pub script_weight: u32,
}

impl GenCfg {
    pub fn quick() -> Self {
        GenCfg {
            max_nodes: 12,
            max_depth: 4,
            abortable: true,
            event_then: false,
            fu: false,
            legacy: false,
            scripts: true,
            task_abort: true,
            script_weight: 10,
        }
    }
    pub fn thorough() -> Self {
        GenCfg {
            max_nodes: 40,
            max_depth: 8,
            ..Self::quick()
        }
    }
}

#[derive(Clone, Copy, Default)]
pub struct Flags {
    /// inside the first part of a `Then` whose second part produces output: nothing whose
    /// completion time is unspecified (lazy aborts) may be generated here
    strict_completion: bool,
    then_depth: usize,
}

pub struct Gen<'a> {
    pub rng: &'a mut Rng,
    pub cfg: GenCfg,
    site: u32,
    tag: u32,
    handle: u32,
    counter: u32,
    budget: isize,
}

impl<'a> Gen<'a> {
    pub fn new(rng: &'a mut Rng, cfg: GenCfg) -> Self {
        let budget = cfg.max_nodes as isize;
        Gen {
            rng,
            cfg,
            site: 1,
            tag: 1,
            handle: 1,
            counter: 1,
            budget,
        }
    }

    /// start numbering sites, tags, handles and counters at `base` (second program of a case)
    pub fn offset_ids(&mut self, base: u32) {
        self.site = base;
        self.tag = base;
        self.handle = base;
        self.counter = base;
    }

    fn site(&mut self) -> u32 {
        self.site += 1;
        self.site - 1
    }
    fn tag(&mut self) -> u32 {
        self.tag += 1;
        self.tag - 1
    }

    pub fn program(&mut self) -> Cmd {
        self.budget = self.rng.range(2, self.cfg.max_nodes as u64) as isize;
        if self.cfg.legacy {
            return self.legacy_program();
        }
        self.cmd(0, Flags::default())
    }

    fn legacy_program(&mut self) -> Cmd {
        let n = self.rng.range(1, 3) as usize;
        let scripts: Vec<Cmd> = (0..n)
            .map(|_| {
                let mut c = Cmd::Async(self.script(1, Flags::default()));
                // child / grandchild capabilities made with `map_event`
                if self.rng.chance(1, 3) {
                    for _ in 0..self.rng.range(1, 3) {
                        let k = if self.rng.chance(1, 4) { 0 } else { self.rng.range(1, 200) as u8 };
                        c = Cmd::MapEvent(Box::new(c), k);
                    }
                }
                c
            })
            .collect();
        if scripts.len() == 1 && self.rng.chance(1, 2) {
            scripts.into_iter().next().unwrap()
        } else {
            Cmd::All(scripts)
        }
    }

    fn cmd(&mut self, depth: usize, flags: Flags) -> Cmd {
        self.budget -= 1;
        let composite_ok = depth + 1 < self.cfg.max_depth && self.budget > 1;
        let abortable_ok = self.cfg.abortable && !flags.strict_completion;
        let sw = if self.cfg.scripts { self.cfg.script_weight } else { 0 };
        let weights: [u32; 14] = [
            3,                                   // 0 Done
            6,                                   // 1 Event
            5,                                   // 2 Notify
            14,                                  // 3 Chain
            sw,                                  // 4 Async
            if composite_ok { 8 } else { 0 },    // 5 Then
            if composite_ok { 8 } else { 0 },    // 6 And
            if composite_ok { 7 } else { 0 },    // 7 All
            if composite_ok { 2 } else { 0 },    // 8 Collect
            if composite_ok { 4 } else { 0 },    // 9 MapEvent
            if composite_ok { 4 } else { 0 },    // 10 MapEffect
            if composite_ok { 2 } else { 0 },    // 11 FromInto
            if composite_ok && abortable_ok { 4 } else { 0 }, // 12 Abortable
            if composite_ok { 3 } else { 0 },    // 13 Guarded
        ];
        match self.rng.weighted(&weights) {
            0 => Cmd::Done,
            1 => {
                let tag = self.tag();
                let then = if self.cfg.event_then && flags.then_depth < 2 && self.rng.chance(1, 3) {
                    let f = Flags {
                        then_depth: flags.then_depth + 1,
                        strict_completion: false,
                    };
                    let saved = self.budget;
                    self.budget = self.budget.clamp(2, 6);
                    let c = self.cmd(depth + 1, f);
                    self.budget = saved - 2;
                    Some(Box::new(c))
                } else {
                    None
                };
                Cmd::Event(tag, then)
            }
            2 => Cmd::Notify(self.site()),
            3 => {
                let chain = self.chain();
                Cmd::Chain(chain, self.tag())
            }
            4 => Cmd::Async(self.script(depth + 1, flags)),
            5 => {
                // decide the second part first: if it can produce output, the first part must
                // have a specified completion time
                let b = self.cmd(depth + 1, flags);
                let strict = flags.strict_completion || b != Cmd::Done;
                let a = self.cmd(
                    depth + 1,
                    Flags {
                        strict_completion: strict,
                        ..flags
                    },
                );
                Cmd::Then(Box::new(a), Box::new(b))
            }
            6 => {
                let a = self.cmd(depth + 1, flags);
                let b = self.cmd(depth + 1, flags);
                Cmd::And(Box::new(a), Box::new(b))
            }
            7 | 8 => {
                let n = self.rng.range(0, 4) as usize;
                let xs: Vec<Cmd> = (0..n).map(|_| self.cmd(depth + 1, flags)).collect();
                if self.rng.chance(1, 5) {
                    Cmd::Collect(xs)
                } else {
                    Cmd::All(xs)
                }
            }
            9 => {
                let k = self.rng.range(1, 250) as u8;
                Cmd::MapEvent(Box::new(self.cmd(depth + 1, flags)), k)
            }
            10 => {
                let k = self.rng.range(1, 250) as u8;
                Cmd::MapEffect(Box::new(self.cmd(depth + 1, flags)), k)
            }
            11 => Cmd::FromInto(Box::new(self.cmd(depth + 1, flags))),
            12 => {
                let h = self.handle;
                self.handle += 1;
                Cmd::Abortable(Box::new(self.cmd(depth + 1, flags)), h)
            }
            13 => {
                let c = self.counter;
                self.counter += 1;
                Cmd::Guarded(Box::new(self.cmd(depth + 1, flags)), c)
            }
            _ => unreachable!(),
        }
    }

    pub fn chain(&mut self) -> Chain {
        let mut is_stream = self.rng.chance(2, 5);
        let head = if is_stream {
            Head::Stream(self.site())
        } else {
            Head::Request(self.site())
        };
        let mut upstream_pure = is_stream; // stream head followed by maps only
        let mut fu_seen = false;
        let n = self.rng.weighted(&[4, 5, 4, 2]);
        let mut stages = vec![];
        for _ in 0..n {
            self.budget -= 1;
            let then_stream_ok = if is_stream {
                !fu_seen && (upstream_pure || self.cfg.fu)
            } else {
                true
            };
            let w = [
                4,
                if fu_seen { 0 } else { 5 },
                if then_stream_ok { 3 } else { 0 },
            ];
            match self.rng.weighted(&w) {
                0 => stages.push(Stage::Map(self.rng.range(0, 200) as u8)),
                1 => {
                    stages.push(Stage::ThenRequest(self.site()));
                    upstream_pure = false;
                }
                _ => {
                    stages.push(Stage::ThenStream(self.site()));
                    if is_stream {
                        fu_seen = true;
                    }
                    is_stream = true;
                    upstream_pure = false;
                }
            }
        }
        Chain { head, stages }
    }

    pub fn script(&mut self, depth: usize, flags: Flags) -> Script {
        self.script_inner(depth, flags, false)
    }

    fn script_inner(&mut self, depth: usize, flags: Flags, producer: bool) -> Script {
        #[derive(Clone, Copy)]
        struct H {
            hard_block_since: bool,
            aborted_lazily: bool,
            aborted: bool,
            just_spawned: bool,
            /// producer of a channel this task reads: only an immediate abort has a specified time
            pipe: bool,
        }
        let n = self.rng.range(1, 7) as usize;
        let mut instrs = vec![];
        let mut regs = 0usize;
        let mut streams = 0usize;
        let mut handles: Vec<H> = vec![];
        let mut has_yield = false;
        let mut has_lazy_abort = false;
        let legacy = self.cfg.legacy;
        let legacy_no_pipe = false;
        for _ in 0..n {
            if self.budget <= 0 && !instrs.is_empty() {
                break;
            }
            self.budget -= 1;
            let spawn_ok = depth + 1 < self.cfg.max_depth && self.budget > 0;
            let joinable: Vec<usize> = handles
                .iter()
                .enumerate()
                .filter(|(_, h)| !h.aborted_lazily)
                .map(|(i, _)| i)
                .collect();
            let abort_immediate: Vec<usize> = handles
                .iter()
                .enumerate()
                .filter(|(_, h)| h.just_spawned && !h.aborted)
                .map(|(i, _)| i)
                .collect();
            let abort_lazy: Vec<usize> = if flags.strict_completion || has_yield {
                vec![]
            } else {
                handles
                    .iter()
                    .enumerate()
                    .filter(|(_, h)| h.hard_block_since && !h.aborted && !h.pipe)
                    .map(|(i, _)| i)
                    .collect()
            };
            let task_abort = self.cfg.task_abort && !legacy;
            let w: [u32; 18] = [
                10,                                                    // 0 Req
                if streams < 2 { 4 } else { 0 },                       // 1 Open
                if streams > 0 { 7 } else { 0 },                       // 2 Next
                10,                                                    // 3 Emit
                if self.cfg.event_then && flags.then_depth < 2 { 2 } else { 0 }, // 4 EmitThen
                4,                                                     // 5 Notify
                if spawn_ok { 6 } else { 0 },                          // 6 Spawn
                if joinable.is_empty() { 0 } else if handles.iter().any(|h| h.aborted && !h.aborted_lazily) { 14 } else { 5 }, // 7 Join
                if task_abort && !abort_immediate.is_empty() { 4 } else { 0 }, // 8 Abort (immediate)
                if task_abort && !abort_lazy.is_empty() { 3 } else { 0 }, // 9 Abort (lazy)
                3,                                                     // 10 JoinAll
                3,                                                     // 11 Select
                if has_lazy_abort { 0 } else { 3 },                    // 12 Yield
                2,                                                     // 13 Hold
                if spawn_ok && streams < 2 && !legacy_no_pipe { 3 } else { 0 }, // 14 SpawnPipe
                if producer { 9 } else { 0 },                          // 15 Send
                if joinable.is_empty() { 0 } else { 4 },               // 16 JoinMixed
                1,                                                     // 17 Abandon
            ];
            let choice = self.rng.weighted(&w);
            // anything but an immediate abort ends the "just spawned" window
            if choice != 8 {
                handles.iter_mut().for_each(|h| h.just_spawned = false);
            }
            match choice {
                0 => {
                    let arg = if regs > 0 && self.rng.chance(1, 2) {
                        Some(self.rng.usize_below(regs))
                    } else {
                        None
                    };
                    // a request whose argument comes from a register must have a site of its own
                    instrs.push(Instr::Req {
                        site: self.site(),
                        arg,
                    });
                    regs += 1;
                    handles.iter_mut().for_each(|h| h.hard_block_since = true);
                }
                1 => {
                    instrs.push(Instr::Open { site: self.site() });
                    streams += 1;
                }
                2 => {
                    instrs.push(Instr::Next {
                        stream: self.rng.usize_below(streams),
                    });
                    regs += 1;
                }
                3 => {
                    let reg = if regs > 0 && self.rng.chance(2, 3) {
                        Some(self.rng.usize_below(regs))
                    } else {
                        None
                    };
                    instrs.push(Instr::Emit {
                        tag: self.tag(),
                        reg,
                    });
                }
                4 => {
                    let f = Flags {
                        then_depth: flags.then_depth + 1,
                        strict_completion: false,
                    };
                    let saved = self.budget;
                    self.budget = self.budget.clamp(2, 5);
                    let saved_legacy = self.cfg.legacy;
                    self.cfg.legacy = false; // follow-up programs use the command API
                    let c = self.cmd(depth + 1, f);
                    self.cfg.legacy = saved_legacy;
                    self.budget = saved - 2;
                    instrs.push(Instr::EmitThen {
                        tag: self.tag(),
                        cmd: Box::new(c),
                    });
                }
                5 => instrs.push(Instr::Notify { site: self.site() }),
                6 => {
                    let s = self.script(depth + 1, flags);
                    instrs.push(Instr::Spawn { script: s });
                    handles.push(H {
                        hard_block_since: false,
                        aborted_lazily: false,
                        aborted: false,
                        just_spawned: true,
                        pipe: false,
                    });
                }
                7 => {
                    let h = *self.rng.pick(&joinable);
                    instrs.push(Instr::Join { handle: h });
                }
                8 => {
                    let h = *self.rng.pick(&abort_immediate);
                    handles[h].aborted = true;
                    handles[h].just_spawned = false;
                    instrs.push(Instr::Abort { handle: h });
                }
                9 => {
                    let h = *self.rng.pick(&abort_lazy);
                    handles[h].aborted = true;
                    handles[h].aborted_lazily = true;
                    has_lazy_abort = true;
                    instrs.push(Instr::Abort { handle: h });
                }
                10 => {
                    let k = self.rng.range(1, 4) as usize;
                    let sites: Vec<u32> = (0..k).map(|_| self.site()).collect();
                    instrs.push(Instr::JoinAll { sites });
                    regs += k;
                    handles.iter_mut().for_each(|h| h.hard_block_since = true);
                }
                11 => {
                    let k = self.rng.range(2, 4) as usize;
                    let sites: Vec<u32> = (0..k).map(|_| self.site()).collect();
                    instrs.push(Instr::Select { sites });
                    regs += 1;
                    handles.iter_mut().for_each(|h| h.hard_block_since = true);
                }
                12 => {
                    instrs.push(Instr::Yield {
                        n: self.rng.range(1, 3) as u8,
                        drop_waker: self.rng.chance(1, 2),
                    });
                    has_yield = true;
                }
                13 => {
                    let c = self.counter;
                    self.counter += 1;
                    instrs.push(Instr::Hold { counter: c });
                }
                17 => instrs.push(Instr::Abandon { site: self.site() }),
                14 => {
                    let s = self.script_inner(depth + 1, flags, true);
                    instrs.push(Instr::SpawnPipe { script: s });
                    handles.push(H {
                        hard_block_since: false,
                        aborted_lazily: false,
                        aborted: false,
                        just_spawned: true,
                        pipe: true,
                    });
                    streams += 1;
                }
                16 => {
                    let k = self.rng.range(1, 2) as usize;
                    let sites: Vec<u32> = (0..k).map(|_| self.site()).collect();
                    let mut hs = joinable.clone();
                    self.rng.shuffle(&mut hs);
                    hs.truncate(self.rng.range(1, 2) as usize);
                    instrs.push(Instr::JoinMixed { sites, handles: hs });
                    regs += k;
                    handles.iter_mut().for_each(|h| h.hard_block_since = true);
                }
                15 => {
                    let reg = if regs > 0 && self.rng.chance(2, 3) {
                        Some(self.rng.usize_below(regs))
                    } else {
                        None
                    };
                    instrs.push(Instr::Send { reg });
                }
                _ => unreachable!(),
            }
        }
        Script { instrs }
    }

    /// Program of the FuturesUnordered class (C07 known finding): no `Then`, the tasks using
    /// `FuturesUnordered` are never joined.
    pub fn fu_program(&mut self) -> Cmd {
        let k = self.rng.range(1, 4) as usize;
        let sites: Vec<u32> = (0..k).map(|_| self.site()).collect();
        let mut instrs = vec![];
        if self.rng.chance(1, 2) {
            instrs.push(Instr::Emit {
                tag: self.tag(),
                reg: None,
            });
        }
        instrs.push(Instr::JoinAllUnordered { sites });
        instrs.push(Instr::Emit {
            tag: self.tag(),
            reg: Some(0),
        });
        let fu = Cmd::Async(Script { instrs });
        match self.rng.below(3) {
            0 => fu,
            1 => Cmd::All(vec![fu, Cmd::Chain(self.chain(), self.tag())]),
            _ => Cmd::MapEvent(Box::new(fu), 7),
        }
    }
}
