//! Runs one program under one (dynamically generated or replayed) action history on a
//! set of hosts in lock-step, comparing every step with the reference model.

use std::collections::BTreeMap;

use serde::Serialize;
use serde_json::{json, Value};
use vcommon::Rng;

use crate::ast::*;
use crate::hosts::{Caps, Host, Obs};
use crate::model::{EffObs, EvObs, Expect, Mode, Model, Pred, Tri};
use crate::ops;

#[derive(Clone, Debug)]
pub struct RunCfg {
    pub max_steps: usize,
    pub drop: bool,
    pub reresolve: bool,
    pub resolve_never: bool,
    pub abort: bool,
    pub noop: bool,
    /// abort a handle before the first poll (hosts that can)
    pub abort_before_start: bool,
    /// the holder extends the command from outside (`cmd.and(other)`), little programs
    /// taken from this pool
    pub extend_pool: Vec<Cmd>,
    /// favour stream items (many items on the same stream)
    pub stream_bias: bool,
    /// at the end resolve-or-drop everything and require `done` (C07 end-of-history rule)
    pub final_cleanup: bool,
}

impl RunCfg {
    pub fn default_for(steps: usize) -> Self {
        RunCfg {
            max_steps: steps,
            drop: true,
            reresolve: true,
            resolve_never: true,
            abort: true,
            noop: true,
            abort_before_start: true,
            extend_pool: vec![],
            stream_bias: false,
            final_cleanup: true,
        }
    }
}

#[derive(Clone, Debug, Serialize)]
pub struct Finding {
    pub signature: String,
    pub what: String,
    pub host: String,
    pub step: usize,
    pub detail: Value,
}

#[derive(Default, Debug)]
pub struct CaseStats {
    pub steps: usize,
    pub effects: usize,
    pub events: usize,
    pub resolves: usize,
    pub late_resolves: usize,
    pub reresolves: usize,
    pub never_resolves: usize,
    pub drops: usize,
    pub aborts: usize,
    pub noops: usize,
    pub extends: usize,
    pub batches: usize,
    pub stream_items: usize,
    pub out_of_order: usize,
    pub done_checked: usize,
    pub done_unknown: usize,
    pub max_outstanding: usize,
    pub then_programs: usize,
    pub fu_stuck_seen: bool,
    pub holds_checked: usize,
    /// steps after which a lagging host had left outputs queued inside the command
    pub lagged_steps: usize,
}

pub struct CaseOutcome {
    pub actions: Vec<Action>,
    pub pre_abort: Option<u32>,
    pub findings: Vec<Finding>,
    pub stats: CaseStats,
}

fn sorted<T: Ord + Clone>(v: &[T]) -> Vec<T> {
    let mut v = v.to_vec();
    v.sort();
    v
}

/// Compare one host observation with the model's prediction for the step.
pub fn compare(pred: &Pred, obs: &Obs, caps: &Caps, host: &str, step: usize) -> Vec<Finding> {
    let out = std::cell::RefCell::new(vec![]);
    let push = |sig: &str, what: &str, detail: Value| {
        out.borrow_mut().push(Finding {
            signature: format!("{sig}@{host}"),
            what: what.to_string(),
            host: host.to_string(),
            step,
            detail,
        })
    };
    for a in &obs.anomalies {
        // signature: the text up to the first digit, so that counts do not split it
        let stem: String = a.chars().take_while(|c| !c.is_ascii_digit()).collect();
        push(
            &format!("anomaly/{}", stem.trim().replace(' ', "-")),
            a,
            json!({"anomaly": a}),
        );
    }
    let pe = sorted(&pred.effects);
    let oe = sorted(&obs.effects);
    if pe != oe {
        let missing: Vec<&EffObs> = pe.iter().filter(|e| !oe.contains(e)).collect();
        let extra: Vec<&EffObs> = oe.iter().filter(|e| !pe.contains(e)).collect();
        let sig = if !missing.is_empty() && extra.is_empty() {
            "effects/missing"
        } else if missing.is_empty() && !extra.is_empty() {
            "effects/unexpected"
        } else if missing.is_empty() && extra.is_empty() {
            "effects/duplicated"
        } else {
            "effects/different"
        };
        push(
            sig,
            "effects handed over in this step differ from the reference semantics",
            json!({"predicted": pe, "observed": oe, "missing": missing, "extra": extra}),
        );
    }
    let pv: Vec<EvObs> = sorted(&pred.events.iter().map(|(_, e)| e.clone()).collect::<Vec<_>>());
    let ov = sorted(&obs.events);
    if pv != ov {
        let missing: Vec<&EvObs> = pv.iter().filter(|e| !ov.contains(e)).collect();
        let extra: Vec<&EvObs> = ov.iter().filter(|e| !pv.contains(e)).collect();
        let sig = if !missing.is_empty() && extra.is_empty() {
            "events/missing"
        } else if missing.is_empty() && !extra.is_empty() {
            "events/unexpected"
        } else if missing.is_empty() && extra.is_empty() {
            "events/duplicated"
        } else {
            "events/different"
        };
        push(
            sig,
            "events delivered in this step differ from the reference semantics",
            json!({"predicted": pv, "observed": ov, "missing": missing, "extra": extra}),
        );
    } else {
        // per-task emission order
        let mut by_group: BTreeMap<usize, Vec<&EvObs>> = BTreeMap::new();
        for (g, e) in &pred.events {
            by_group.entry(*g).or_default().push(e);
        }
        for (g, seq) in by_group {
            if seq.len() < 2 {
                continue;
            }
            let observed: Vec<&EvObs> = obs.events.iter().filter(|e| seq.contains(e)).collect();
            if observed != seq {
                push(
                    "events/task-order",
                    "events emitted by one task were applied out of emission order",
                    json!({"task": g, "emitted": seq, "applied": observed}),
                );
            }
        }
    }
    if caps.done {
        if let (Some(p), Some(o)) = (pred.done, obs.done) {
            match p {
                Tri::Unknown => {}
                Tri::Yes if !o => {
                    if pred.fu_stuck {
                        out.borrow_mut().push(Finding {
                            signature: "not-done/futures-unordered-all-requests-dropped".into(),
                            what: "task awaiting FuturesUnordered-style futures is never evicted".into(),
                            host: host.to_string(),
                            step,
                            detail: json!({"live_tasks": obs.live_tasks}),
                        });
                    } else {
                        push(
                            "done/false-but-nothing-can-happen",
                            "is_done() is false although no task can ever run again and no output is pending",
                            json!({"live_tasks": obs.live_tasks, "model_live": pred.live_root_tasks}),
                        );
                    }
                }
                Tri::No if o => push(
                    "done/true-while-work-remains",
                    "is_done() is true while a task that can still be woken remains",
                    json!({"live_tasks": obs.live_tasks, "model_live": pred.live_root_tasks}),
                ),
                _ => {}
            }
        }
    }
    for (p, o) in pred.batch_resolve.iter().zip(&obs.batch_resolve_ok) {
        match (p, o) {
            (Some(Expect::Ok), Some(false)) => push(
                "resolve/rejected-but-should-be-accepted",
                "a resolution (inside a batch) that the declared arity allows was rejected",
                json!({}),
            ),
            (Some(Expect::Err), Some(true)) => push(
                "resolve/accepted-but-should-be-rejected",
                "a resolution (inside a batch) that the declared arity forbids was accepted",
                json!({}),
            ),
            _ => {}
        }
    }
    if let (Some(p), Some(o)) = (pred.resolve, obs.resolve_ok) {
        match (p, o) {
            (Expect::Ok, false) => push(
                "resolve/rejected-but-should-be-accepted",
                "a resolution that the declared arity allows was rejected",
                json!({}),
            ),
            (Expect::Err, true) => push(
                "resolve/accepted-but-should-be-rejected",
                "a resolution that the declared arity forbids was accepted",
                json!({}),
            ),
            _ => {}
        }
    }
    out.into_inner()
}

/// What the driver may do next, derived from the *model's* state only
fn choose_action(
    model: &Model,
    sweep_pending: bool,
    rng: &mut Rng,
    cfg: &RunCfg,
    next_val: &mut u64,
    aborted: &mut Vec<u32>,
    extended: &mut usize,
) -> Option<Action> {
    let outstanding = model.outstanding();
    let mut cands: Vec<(u32, Action)> = vec![];
    // While an aborted command has not been swept yet (it is swept when it is next polled), closing
    // the channel of a request whose receiver is gone is kept out of the history: the channel still
    // holds the waker of the receiver's last poll unless an earlier wake used it up, and waking that
    // stale waker polls the command chain once more, i.e. *may* sweep the command at this point.
    // Whether it does depends on bookkeeping inside futures-channel that no property speaks about.
    for o in &outstanding {
        let (site, arg) = o.key;
        if sweep_pending && !o.receiver_alive && o.kind != KIND_NEVER {
            continue;
        }
        match o.kind {
            KIND_ONCE => {
                if !o.resolved_once {
                    cands.push((if o.receiver_alive { 12 } else { 4 }, Action::Resolve { site, arg, val: 0 }));
                } else if cfg.reresolve {
                    cands.push((1, Action::Resolve { site, arg, val: 0 }));
                }
            }
            KIND_MANY => {
                let w = if o.receiver_alive { if cfg.stream_bias { 60 } else { 8 } } else { 2 };
                cands.push((w, Action::Resolve { site, arg, val: 0 }));
            }
            _ => {
                if cfg.resolve_never {
                    cands.push((1, Action::Resolve { site, arg, val: 0 }));
                }
            }
        }
        if cfg.drop {
            let w = match o.kind {
                KIND_ONCE if !o.resolved_once => 3,
                KIND_MANY if cfg.stream_bias => 1,
                KIND_MANY => 3,
                _ => 2,
            };
            cands.push((w, Action::DropReq { site, arg }));
        }
    }
    if cfg.abort {
        for h in model.abort_handles() {
            let w = if aborted.contains(&h) { 1 } else { 3 };
            cands.push((w, Action::Abort { handle: h }));
        }
    }
    if !cfg.extend_pool.is_empty() && *extended < cfg.extend_pool.len() {
        cands.push((2, Action::Extend(Box::new(cfg.extend_pool[*extended].clone()))));
    }
    if cands.is_empty() {
        // nothing left to act on: one last quiescence probe, then stop
        return if cfg.noop && rng.chance(1, 3) {
            Some(Action::Noop)
        } else {
            None
        };
    }
    if cfg.noop {
        cands.push((1, Action::Noop));
    }
    let weights: Vec<u32> = cands.iter().map(|c| c.0).collect();
    let mut a = cands[rng.weighted(&weights)].1.clone();
    match &mut a {
        Action::Resolve { val, .. } => {
            *next_val += 1;
            *val = *next_val;
        }
        Action::Abort { handle } => aborted.push(*handle),
        Action::Extend(_) => *extended += 1,
        _ => {}
    }
    Some(a)
}

/// With some probability, turn `first` into a batch with a second action on another request,
/// provided both orders lead to the same outputs, verdicts and complete model state in every
/// model (the operations commute), so that "both before the next run" has one meaning.
fn maybe_batch(first: Action, models: &[Model], rng: &mut Rng, cfg: &RunCfg, batch_cap: u8, next_val: &mut u64) -> Action {
    if batch_cap == 0 || !rng.chance(1, 5) {
        return first;
    }
    let key_of = |a: &Action| match a {
        Action::Resolve { site, arg, .. } | Action::DropReq { site, arg } => Some((*site, *arg)),
        _ => None,
    };
    let Some(k1) = key_of(&first) else { return first };
    let cands: Vec<_> = models[0]
        .outstanding()
        .into_iter()
        .filter(|o| o.key != k1 && o.kind != KIND_NEVER && !(o.kind == KIND_ONCE && o.resolved_once))
        // (see choose_action: no channel of a dead receiver is closed while a sweep is pending)
        .filter(|o| o.receiver_alive || !models.iter().any(|m| m.has_zombies()))
        .collect();
    if cands.is_empty() {
        return first;
    }
    let o = rng.pick(&cands).clone();
    let second = if cfg.drop && rng.chance(1, 2) {
        Action::DropReq { site: o.key.0, arg: o.key.1 }
    } else {
        *next_val += 1;
        Action::Resolve { site: o.key.0, arg: o.key.1, val: *next_val }
    };
    // hosts that can only batch "drops, then one call" need the drop first
    let (a, b) = match (&first, &second) {
        (_, Action::DropReq { .. }) => (second.clone(), first.clone()),
        _ => (first.clone(), second.clone()),
    };
    if batch_cap == 1 && !matches!(a, Action::DropReq { .. }) {
        return first;
    }
    for m in models {
        let mut m1 = m.clone();
        let mut m2 = m.clone();
        let (pa1, pb1) = (m1.act(&a), m1.act(&b));
        let (pb2, pa2) = (m2.act(&b), m2.act(&a));
        let sorted_fx = |x: &crate::model::Pred, y: &crate::model::Pred| {
            let mut e: Vec<_> = x.effects.iter().chain(&y.effects).cloned().collect();
            e.sort();
            let mut v: Vec<_> = x.events.iter().chain(&y.events).map(|(_, e)| e.clone()).collect();
            v.sort();
            (e, v)
        };
        let same = sorted_fx(&pa1, &pb1) == sorted_fx(&pa2, &pb2)
            && pa1.resolve == pa2.resolve
            && pb1.resolve == pb2.resolve
            && m1.fingerprint() == m2.fingerprint()
            && !m1.has_zombies()
            && !pb1.fu_stuck
            // per-task emission order must not depend on the order either
            && {
                let seq = |x: &crate::model::Pred, y: &crate::model::Pred| {
                    let mut by: BTreeMap<usize, Vec<EvObs>> = BTreeMap::new();
                    for (g, e) in x.events.iter().chain(&y.events) {
                        by.entry(*g).or_default().push(e.clone());
                    }
                    by
                };
                seq(&pa1, &pb1) == seq(&pa2, &pb2)
            };
        if !same {
            return first;
        }
    }
    Action::Batch(vec![a, b])
}

/// Outputs of a lagging host are compared cumulatively: what the model predicted and what the
/// host reported since the host last consumed everything.
#[derive(Default)]
struct Carry {
    pred_effects: Vec<EffObs>,
    pred_events: Vec<(usize, EvObs)>,
    obs_effects: Vec<EffObs>,
    obs_events: Vec<EvObs>,
    anomalies: Vec<String>,
}

/// Returns the (cumulative) prediction and observation to compare now, or None while the
/// host is still behind.
fn settle_partial(carry: &mut Option<Carry>, pred: &Pred, mut obs: Obs) -> Option<(Pred, Obs)> {
    if carry.is_none() && !obs.partial {
        return Some((pred.clone(), obs));
    }
    let mut c = carry.take().unwrap_or_default();
    c.pred_effects.extend(pred.effects.iter().cloned());
    c.pred_events.extend(pred.events.iter().cloned());
    c.obs_effects.append(&mut obs.effects);
    c.obs_events.append(&mut obs.events);
    c.anomalies.append(&mut obs.anomalies);
    if obs.partial {
        *carry = Some(c);
        return None;
    }
    let mut p = pred.clone();
    p.effects = c.pred_effects;
    p.events = c.pred_events;
    obs.effects = c.obs_effects;
    obs.events = c.obs_events;
    obs.anomalies = c.anomalies;
    Some((p, obs))
}

fn with_slot<T>(slot: usize, f: impl FnOnce() -> T) -> T {
    ops::set_slot(slot as u32);
    f()
}

pub struct HostSlot {
    pub host: Box<dyn Host>,
    /// index into the list of model modes this host is compared with
    pub model: usize,
    /// program this host runs instead of the case's program (neutral wrappers for C05)
    pub program: Option<Cmd>,
}

impl HostSlot {
    pub fn new(host: Box<dyn Host>, model: usize) -> Self {
        HostSlot {
            host,
            model,
            program: None,
        }
    }
}

/// Run a case. `replay`: use these actions instead of generating them.
pub fn run_case(
    program: &Cmd,
    hosts: &mut [HostSlot],
    modes: &[Mode],
    rng: &mut Rng,
    cfg: &RunCfg,
    replay: Option<(&[Action], Option<u32>)>,
) -> CaseOutcome {
    ops::reset_registries();
    let mut models: Vec<Model> = modes.iter().map(|m| Model::new(*m)).collect();
    let mut findings: Vec<Finding> = vec![];
    let mut stats = CaseStats::default();
    let mut actions: Vec<Action> = vec![];
    let mut dead: Vec<bool> = vec![false; hosts.len()];
    let mut carry: Vec<Option<Carry>> = (0..hosts.len()).map(|_| None).collect();
    // (done, fu_stuck, live_root_tasks) of the last prediction per model, for the final flush
    let mut last_done: Vec<(Option<Tri>, bool, usize)> = vec![(None, false, 0); modes.len()];
    let caps: Vec<Caps> = hosts.iter().map(|h| h.host.caps()).collect();
    let all = |f: fn(&Caps) -> bool| caps.iter().all(f);
    let eff_cfg = RunCfg {
        drop: cfg.drop && all(|c| c.drop),
        reresolve: cfg.reresolve && all(|c| c.reresolve),
        resolve_never: cfg.resolve_never,
        abort_before_start: cfg.abort_before_start && all(|c| c.abort_before_start),
        extend_pool: if all(|c| c.extend) { cfg.extend_pool.clone() } else { vec![] },
        ..cfg.clone()
    };
    let never_twice = all(|c| c.resolve_never_twice);
    let batch_cap: u8 = caps.iter().map(|c| c.batch).min().unwrap_or(0);

    // ---- start -----------------------------------------------------------
    let mut pre_abort = None;
    let handles_in_program = program_handles(program);
    let do_pre_abort = match replay {
        Some((_, pa)) => pa,
        None => {
            if eff_cfg.abort_before_start && !handles_in_program.is_empty() && rng.chance(1, 6) {
                Some(*rng.pick(&handles_in_program))
            } else {
                None
            }
        }
    };
    let preds: Vec<Pred> = if let Some(h) = do_pre_abort {
        pre_abort = Some(h);
        for (i, slot) in hosts.iter_mut().enumerate() {
            let p = slot.program.clone().unwrap_or_else(|| program.clone());
            with_slot(i, || {
                slot.host.prepare(&p);
                ops::call_abort(h);
            });
        }
        stats.aborts += 1;
        models
            .iter_mut()
            .map(|m| {
                m.prepare(program);
                m.act_without_settle_abort(h);
                m.first_poll()
            })
            .collect()
    } else {
        models.iter_mut().map(|m| m.start(program)).collect()
    };
    for (i, slot) in hosts.iter_mut().enumerate() {
        let p = slot.program.clone().unwrap_or_else(|| program.clone());
        let obs = with_slot(i, || {
            if pre_abort.is_some() {
                slot.host.first_poll()
            } else {
                slot.host.start(&p)
            }
        });
        last_done[slot.model] = (preds[slot.model].done, preds[slot.model].fu_stuck, preds[slot.model].live_root_tasks);
        if let Some((p, o)) = settle_partial(&mut carry[i], &preds[slot.model], obs) {
            let f = compare(&p, &o, &caps[i], slot.host.name(), 0);
            if !f.is_empty() {
                dead[i] = true;
            }
            findings.extend(f);
        }
    }
    stats.effects += preds[0].effects.len();
    stats.events += preds[0].events.len();

    // ---- steps -----------------------------------------------------------
    let mut next_val: u64 = 1000;
    let mut aborted: Vec<u32> = pre_abort.into_iter().collect();
    let mut extended = 0usize;
    let mut never_resolved: Vec<(u32, u64)> = vec![];
    let mut last_issue_order: Vec<(u32, u64)> = vec![];
    let mut step = 0usize;
    let mut cleanup = false;
    loop {
        if dead.iter().all(|d| *d) {
            break;
        }
        step += 1;
        let action = match replay {
            Some((acts, _)) => match acts.get(step - 1) {
                Some(a) => a.clone(),
                None => break,
            },
            None => {
                if !cleanup && step > eff_cfg.max_steps {
                    if eff_cfg.final_cleanup && eff_cfg.drop {
                        cleanup = true;
                    } else {
                        break;
                    }
                }
                if cleanup {
                    // resolve-or-drop everything that is left (requests with a live receiver first;
                    // with a sweep pending the others are left alone, see choose_action)
                    let sweep_pending = models.iter().any(|m| m.has_zombies());
                    let all = models[0].outstanding();
                    let pick = all.iter().find(|o| o.receiver_alive || o.kind == KIND_NEVER).or_else(|| if sweep_pending { None } else { all.first() });
                    match pick {
                        Some(o) => {
                            let (site, arg) = o.key;
                            if o.kind == KIND_ONCE && !o.resolved_once && rng.chance(1, 2) {
                                next_val += 1;
                                Action::Resolve {
                                    site,
                                    arg,
                                    val: next_val,
                                }
                            } else {
                                Action::DropReq { site, arg }
                            }
                        }
                        None => break,
                    }
                } else {
                    let mut a = None;
                    for _ in 0..8 {
                        let c = choose_action(&models[0], models.iter().any(|m| m.has_zombies()), rng, &eff_cfg, &mut next_val, &mut aborted, &mut extended);
                        // a notification id can be answered at most once over the bridge
                        if let Some(Action::Resolve { site, arg, .. }) = &c {
                            if !never_twice && never_resolved.contains(&(*site, *arg)) {
                                continue;
                            }
                        }
                        a = c;
                        break;
                    }
                    match a {
                        Some(a) => maybe_batch(a, &models, rng, &eff_cfg, batch_cap, &mut next_val),
                        None => break,
                    }
                }
            }
        };
        // bookkeeping for the evidence
        let out_now = models[0].outstanding();
        stats.max_outstanding = stats.max_outstanding.max(out_now.len());
        match &action {
            Action::Resolve { site, arg, .. } => {
                stats.resolves += 1;
                if let Some(o) = out_now.iter().find(|o| o.key == (*site, *arg)) {
                    if o.kind == KIND_NEVER {
                        stats.never_resolves += 1;
                        never_resolved.push((*site, *arg));
                    } else if o.kind == KIND_ONCE && o.resolved_once {
                        stats.reresolves += 1;
                    } else if !o.receiver_alive {
                        stats.late_resolves += 1;
                    } else if o.kind == KIND_MANY {
                        stats.stream_items += 1;
                    }
                    if last_issue_order.first() != Some(&(*site, *arg)) {
                        stats.out_of_order += 1;
                    }
                }
            }
            Action::DropReq { .. } => stats.drops += 1,
            Action::Abort { .. } => stats.aborts += 1,
            Action::Noop => stats.noops += 1,
            Action::Extend(_) => stats.extends += 1,
            Action::Batch(_) => stats.batches += 1,
        }
        let preds: Vec<Pred> = models.iter_mut().map(|m| m.act(&action)).collect();
        let pred = &preds[0];
        last_issue_order = models[0]
            .outstanding()
            .iter()
            .filter(|o| o.kind == KIND_ONCE && !o.resolved_once)
            .map(|o| o.key)
            .collect();
        stats.effects += pred.effects.len();
        stats.events += pred.events.len();
        if pred.fu_stuck {
            stats.fu_stuck_seen = true;
        }
        match pred.done {
            Some(Tri::Unknown) => stats.done_unknown += 1,
            Some(_) => stats.done_checked += 1,
            None => {}
        }
        let mut order_ref: Vec<Option<Vec<EffObs>>> = vec![None; modes.len()];
        for (i, slot) in hosts.iter_mut().enumerate() {
            if dead[i] {
                continue;
            }
            let host = &mut slot.host;
            let model = &models[slot.model];
            let pred = &preds[slot.model];
            let obs = with_slot(i, || host.act(&action));
            // order of the requests of one call: bridge image vs typed twin
            if !obs.partial {
                if !caps[i].order_twin {
                    if order_ref[slot.model].is_none() && host.name().starts_with("Core") {
                        order_ref[slot.model] = Some(obs.effects.clone());
                    }
                } else if let Some(reference) = &order_ref[slot.model] {
                    if *reference != obs.effects && sorted(reference) == sorted(&obs.effects) {
                        findings.push(Finding {
                            signature: format!("effects/order-differs-from-typed-core@{}", host.name()),
                            what: "the bridge hands over the requests of one call in a different order than the typed core returns its effects".into(),
                            host: host.name().to_string(),
                            step,
                            detail: json!({"typed_core": reference, "bridge": obs.effects}),
                        });
                        dead[i] = true;
                    }
                }
            }
            // the verdict on the resolution itself is known at once, also for a lagging host
            let partial = obs.partial;
            if partial {
                let verdict_only = Obs {
                    resolve_ok: obs.resolve_ok,
                    batch_resolve_ok: obs.batch_resolve_ok.clone(),
                    ..Obs::default()
                };
                let p = Pred {
                    resolve: pred.resolve,
                    batch_resolve: pred.batch_resolve.clone(),
                    ..Pred::default()
                };
                let f = compare(&p, &verdict_only, &caps[i], host.name(), step);
                if !f.is_empty() {
                    dead[i] = true;
                }
                findings.extend(f);
            }
            last_done[slot.model] = (pred.done, pred.fu_stuck, pred.live_root_tasks);
            if let Some((p, o)) = settle_partial(&mut carry[i], pred, obs) {
                let f = compare(&p, &o, &caps[i], host.name(), step);
                if !f.is_empty() {
                    dead[i] = true;
                }
                findings.extend(f);
            }
            if partial {
                stats.lagged_steps += 1;
                continue;
            }
            // drop counters: everything the model has released must have been dropped
            for (counter, (created, dropped)) in &model.holds {
                let (rc, rd) = with_slot(i, || ops::hold_state(*counter));
                stats.holds_checked += 1;
                if !model.has_zombies() && !pred.fu_stuck && (rc != *created || rd != *dropped) {
                    findings.push(Finding {
                        signature: format!("held-value/not-released@{}", host.name()),
                        what: "a value captured by a finished or cancelled task was not dropped (or dropped early)".into(),
                        host: host.name().to_string(),
                        step,
                        detail: json!({"counter": counter, "model": [created, dropped], "observed": [rc, rd]}),
                    });
                    dead[i] = true;
                }
            }
        }
        actions.push(action);
    }
    stats.steps = step;
    // lagging hosts consume what is still queued; nothing may have been lost
    for (i, slot) in hosts.iter_mut().enumerate() {
        if dead[i] || carry[i].is_none() {
            continue;
        }
        let host = &mut slot.host;
        let obs = with_slot(i, || host.flush());
        let p = Pred {
            done: last_done[slot.model].0,
            fu_stuck: last_done[slot.model].1,
            live_root_tasks: last_done[slot.model].2,
            ..Pred::default()
        };
        if let Some((p, o)) = settle_partial(&mut carry[i], &p, obs) {
            findings.extend(compare(&p, &o, &caps[i], host.name(), step));
        } else {
            findings.push(Finding {
                signature: format!("anomaly/flush-left-outputs@{}", host.name()),
                what: "harness: flush did not consume everything".into(),
                host: host.name().to_string(),
                step,
                detail: json!({}),
            });
        }
    }
    for (i, slot) in hosts.iter_mut().enumerate() {
        let host = &mut slot.host;
        for a in with_slot(i, || host.finish()) {
            findings.push(Finding {
                signature: format!("anomaly/finish@{}", host.name()),
                what: a.clone(),
                host: host.name().to_string(),
                step,
                detail: json!({"anomaly": a}),
            });
        }
    }
    CaseOutcome {
        actions,
        pre_abort,
        findings,
        stats,
    }
}

pub fn program_handles(c: &Cmd) -> Vec<u32> {
    fn go(c: &Cmd, out: &mut Vec<u32>) {
        match c {
            Cmd::Abortable(inner, h) => {
                out.push(*h);
                go(inner, out)
            }
            Cmd::Then(a, b) | Cmd::And(a, b) => {
                go(a, out);
                go(b, out)
            }
            Cmd::All(xs) | Cmd::Collect(xs) => xs.iter().for_each(|x| go(x, out)),
            Cmd::MapEvent(c, _) | Cmd::MapEffect(c, _) | Cmd::FromInto(c) | Cmd::Guarded(c, _) => go(c, out),
            // follow-up programs are built later, their handles do not exist at the start
            _ => {}
        }
    }
    let mut out = vec![];
    go(c, &mut out);
    out
}
