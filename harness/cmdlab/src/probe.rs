//! A "foreign waker" adapter: the wrapped future / stream is polled with a waker of the
//! harness's own (it owns a clone of the task's waker and forwards `wake` to it), the way
//! `FuturesUnordered`, `select_all` or tracing instrumentation hand inner futures their own
//! wakers. Cloning that waker (which is what code does when it *registers* a waker) and waking
//! it report to a hook, which gives the schedule controller points exactly where crux or a
//! channel stores a waker - inside whatever critical section the code uses for that.
//!
//! The adapter is also as strict as the `Future` contract allows an executor to be: only the
//! waker of the *most recent* poll is honoured, a wake-up through a waker handed out by an earlier
//! poll is ignored (and counted). Code that keeps the waker of its first poll and never
//! re-registers loses its wake-up here.
//!
//! Off unless `PROBE_ON` is set (schedlab sets it per scenario).

use std::future::Future;
use std::pin::Pin;
use std::sync::atomic::{AtomicBool, AtomicU64, Ordering};
use std::sync::{Arc, OnceLock};
use std::task::{Context, Poll, RawWaker, RawWakerVTable, Waker};

use futures::Stream;

pub static PROBE_ON: AtomicBool = AtomicBool::new(false);
pub static WAKER_HOOK: OnceLock<fn(&'static str)> = OnceLock::new();

pub fn on() -> bool {
    PROBE_ON.load(Ordering::Relaxed)
}

fn hook(name: &'static str) {
    if let Some(h) = WAKER_HOOK.get() {
        h(name);
    }
}

/// wake-ups through a waker of an earlier poll that were ignored (whole process)
pub static STALE_WAKES_IGNORED: AtomicU64 = AtomicU64::new(0);

struct ProbeWaker {
    real: Waker,
    /// number of the most recent poll of the adapter this waker was made for
    current: Arc<AtomicU64>,
    mine: u64,
}

impl ProbeWaker {
    fn forward(&self) {
        if self.current.load(Ordering::SeqCst) == self.mine {
            self.real.wake_by_ref();
        } else {
            STALE_WAKES_IGNORED.fetch_add(1, Ordering::Relaxed);
        }
    }
}

static VTABLE: RawWakerVTable = RawWakerVTable::new(pw_clone, pw_wake, pw_wake_by_ref, pw_drop);

fn raw(real: Waker, current: Arc<AtomicU64>, mine: u64) -> RawWaker {
    RawWaker::new(Box::into_raw(Box::new(ProbeWaker { real, current, mine })) as *const (), &VTABLE)
}

unsafe fn pw_clone(data: *const ()) -> RawWaker {
    // SAFETY: `data` came from `raw` and is live until `pw_drop` / `pw_wake`
    let this = unsafe { &*(data as *const ProbeWaker) };
    hook("harness.waker_clone");
    raw(this.real.clone(), this.current.clone(), this.mine)
}

unsafe fn pw_wake(data: *const ()) {
    // SAFETY: as above; `wake` consumes the waker
    let this = unsafe { Box::from_raw(data as *mut ProbeWaker) };
    hook("harness.waker_wake");
    this.forward();
    hook("harness.waker_drop");
}

unsafe fn pw_wake_by_ref(data: *const ()) {
    // SAFETY: as above
    let this = unsafe { &*(data as *const ProbeWaker) };
    hook("harness.waker_wake");
    this.forward();
}

unsafe fn pw_drop(data: *const ()) {
    // SAFETY: as above
    let this = unsafe { Box::from_raw(data as *mut ProbeWaker) };
    // (the task's own waker goes with it: the executor looks at how many are left)
    hook("harness.waker_drop");
    drop(this);
}

pub struct Probe<T> {
    inner: T,
    polls: Arc<AtomicU64>,
}

impl<T> Probe<T> {
    pub fn new(inner: T) -> Self {
        Probe { inner, polls: Arc::new(AtomicU64::new(0)) }
    }

    fn waker(&self, cx: &Context<'_>) -> Waker {
        let mine = self.polls.fetch_add(1, Ordering::SeqCst) + 1;
        // SAFETY: the vtable functions uphold the RawWaker contract; ProbeWaker only holds a
        // Waker, an Arc and a number: Send + Sync
        unsafe { Waker::from_raw(raw(cx.waker().clone(), self.polls.clone(), mine)) }
    }
}

impl<F: Future + Unpin> Future for Probe<F> {
    type Output = F::Output;
    fn poll(mut self: Pin<&mut Self>, cx: &mut Context<'_>) -> Poll<F::Output> {
        let waker = self.waker(cx);
        let mut cx = Context::from_waker(&waker);
        Pin::new(&mut self.inner).poll(&mut cx)
    }
}

impl<S: Stream + Unpin> Stream for Probe<S> {
    type Item = S::Item;
    fn poll_next(mut self: Pin<&mut Self>, cx: &mut Context<'_>) -> Poll<Option<S::Item>> {
        let waker = self.waker(cx);
        let mut cx = Context::from_waker(&waker);
        Pin::new(&mut self.inner).poll_next(&mut cx)
    }
}
