pub mod ast;
pub mod build;
pub mod fuzzapp;
pub mod gen;
pub mod hosts;
pub mod lab;
pub mod model;
pub mod ops;
