//! Operations, events, effect types (one through each macro) and the harness apps.

use std::collections::HashMap;
use std::sync::atomic::{AtomicBool, AtomicU64, Ordering};
use std::sync::Mutex;

use crux_core::capability::{CapabilityContext, Operation};
use crux_core::macros::Capability;
use crux_core::{Command, Request};
use serde::{Deserialize, Serialize};

use crate::ast::Cmd;

#[derive(Serialize, Deserialize, Clone, Debug, PartialEq, Eq)]
pub struct Op {
    pub site: u32,
    pub arg: u64,
    pub kind: u8,
    pub trail: Vec<u8>,
}

impl Operation for Op {
    type Output = Val;
}

/// The value a shell answers with. Deserializing it calls a harness hook, which gives the
/// schedule controller a point *inside* response decoding (the bridge decodes responses
/// while it holds the registry entry).
#[derive(Serialize, Clone, Copy, Debug, PartialEq, Eq)]
#[serde(transparent)]
pub struct Val(pub u64);

pub static DESERIALIZE_HOOK: std::sync::OnceLock<fn()> = std::sync::OnceLock::new();

impl<'de> Deserialize<'de> for Val {
    fn deserialize<D: serde::Deserializer<'de>>(d: D) -> Result<Self, D::Error> {
        if let Some(h) = DESERIALIZE_HOOK.get() {
            h();
        }
        u64::deserialize(d).map(Val)
    }
}

#[derive(Serialize, Deserialize, Clone, Debug, PartialEq, Eq)]
pub struct Sig {
    pub site: u32,
    pub trail: Vec<u8>,
}

impl Operation for Sig {
    type Output = ();
}

#[derive(Serialize, Deserialize, Clone, Debug, PartialEq, Eq)]
pub enum Event {
    /// emitted by tasks; `update` appends it to the log
    Out {
        tag: u32,
        val: u64,
        trail: Vec<u8>,
        /// follow-up program `update` returns for this event (core hosts)
        then: Option<Box<Cmd>>,
    },
    /// shell event: `update` returns the built program
    Start(Box<Cmd>),
    /// shell event: `update` runs the program through the legacy capability API
    StartLegacy(Box<Cmd>),
    Noop,
    /// shell event: like `Start`, but from now on the scripts of every program this app builds
    /// talk to the shell through the *capability* contexts (legacy futures awaited inside
    /// Command tasks: a half-migrated app)
    StartMixed(Box<Cmd>),
    /// shell event: `update` aborts the command registered under this handle
    Cancel(u32),
    /// shell event that only carries bulk (a large message over the bridge); a no-op for the app
    Pad(Vec<u8>),
}

impl Event {
    pub fn push_trail(mut self, k: u8) -> Self {
        if let Event::Out { trail, .. } = &mut self {
            trail.push(k);
        }
        self
    }
}

/// One applied event as the model (of the app) logs it
#[derive(Serialize, Deserialize, Clone, Debug, PartialEq, Eq, PartialOrd, Ord, Hash)]
pub struct Logged {
    pub tag: u32,
    pub val: u64,
    pub trail: Vec<u8>,
}

/// What every lab effect type offers to generic harness code
pub trait LabEffect:
    From<Request<Op>> + From<Request<Sig>> + From<crate::build::Wrapped<Self>> + Send + Unpin + 'static
{
    fn split(self) -> Split;
    fn push_trail(self, k: u8) -> Self;
}

pub enum Split {
    Op(Request<Op>),
    Sig(Request<Sig>),
}

// ---------------------------------------------------------------------------
// Effect type 1: attribute macro, no capabilities
// ---------------------------------------------------------------------------

pub mod m {
    use super::{Op, Sig};
    use crux_core::macros::effect;

    #[effect]
    pub enum Effect {
        Op(Op),
        Sig(Sig),
    }
}

impl LabEffect for m::Effect {
    fn split(self) -> Split {
        match self {
            m::Effect::Op(r) => Split::Op(r),
            m::Effect::Sig(r) => Split::Sig(r),
        }
    }
    fn push_trail(mut self, k: u8) -> Self {
        match &mut self {
            m::Effect::Op(r) => r.operation.trail.push(k),
            m::Effect::Sig(r) => r.operation.trail.push(k),
        }
        self
    }
}

// ---------------------------------------------------------------------------
// Effect type 2: derive macro over legacy capabilities
// ---------------------------------------------------------------------------

#[derive(Capability)]
pub struct OpCap<Ev> {
    pub context: CapabilityContext<Op, Ev>,
}

impl<Ev> Clone for OpCap<Ev> {
    fn clone(&self) -> Self {
        OpCap {
            context: self.context.clone(),
        }
    }
}

impl<Ev: 'static> OpCap<Ev> {
    pub fn new(context: CapabilityContext<Op, Ev>) -> Self {
        Self { context }
    }
}

#[derive(Capability)]
pub struct SigCap<Ev> {
    pub context: CapabilityContext<Sig, Ev>,
}

impl<Ev> Clone for SigCap<Ev> {
    fn clone(&self) -> Self {
        SigCap {
            context: self.context.clone(),
        }
    }
}

impl<Ev: 'static> SigCap<Ev> {
    pub fn new(context: CapabilityContext<Sig, Ev>) -> Self {
        Self { context }
    }
}

pub mod d {
    use super::{Event, OpCap, SigCap};
    use crux_core::macros::Effect;

    #[derive(Effect)]
    pub struct Capabilities {
        pub op: OpCap<Event>,
        pub sig: SigCap<Event>,
    }
}

impl LabEffect for d::Effect {
    fn split(self) -> Split {
        match self {
            d::Effect::OpCap(r) => Split::Op(r),
            d::Effect::SigCap(r) => Split::Sig(r),
        }
    }
    fn push_trail(mut self, k: u8) -> Self {
        match &mut self {
            d::Effect::OpCap(r) => r.operation.trail.push(k),
            d::Effect::SigCap(r) => r.operation.trail.push(k),
        }
        self
    }
}

// ---------------------------------------------------------------------------
// App-side monitors (C03): re-entrancy flag, thread check, append-only log
// ---------------------------------------------------------------------------

pub static UPDATE_REENTERED: AtomicU64 = AtomicU64::new(0);
/// the heap-occupancy monitor (C13) switches the app's own log off: it grows by design
pub static KEEP_LOG: AtomicBool = AtomicBool::new(true);

/// Emission log (off by default): every event a script hands to `send_event` / `update_app`,
/// in emission order. Lets a monitor check conservation (emitted = applied) without a model.
pub static EMIT_LOG_ON: AtomicBool = AtomicBool::new(false);
pub static EMIT_LOG: Mutex<Vec<(u32, u64)>> = Mutex::new(Vec::new());

pub fn log_emission(ev: &Event) {
    if EMIT_LOG_ON.load(Ordering::Relaxed) {
        if let Event::Out { tag, val, .. } = ev {
            EMIT_LOG.lock().unwrap().push((*tag, *val));
        }
    }
    if FREE_LOG_ON.load(Ordering::Relaxed) {
        if let Event::Out { tag, val, .. } = ev {
            FREE_LOG.lock().unwrap().push((slot(), false, *tag, *val, 0));
        }
    }
}
pub static UPDATES: AtomicU64 = AtomicU64::new(0);

/// Request log (off by default), the effect-side twin of the emission log: every shell request a
/// script really makes, recorded where the API sends it (a notification at the call, a one-shot
/// or stream request at the first poll of its future), and every event, both with the host slot
/// that was running. (slot, is_effect, site-or-tag, arg-or-val, kind)
pub static FREE_LOG_ON: AtomicBool = AtomicBool::new(false);
pub static FREE_LOG: Mutex<Vec<(u32, bool, u32, u64, u8)>> = Mutex::new(Vec::new());

pub fn log_request(site: u32, arg: u64, kind: u8) {
    if FREE_LOG_ON.load(Ordering::Relaxed) {
        FREE_LOG.lock().unwrap().push((slot(), true, site, arg, kind));
    }
}

#[derive(Default)]
pub struct Model {
    pub log: Vec<Logged>,
    pub in_update: AtomicBool,
    pub mixed: bool,
}

pub type MixedCaps = (CapabilityContext<Op, Event>, CapabilityContext<Sig, Event>);

thread_local! {
    /// capability contexts scripts use instead of the command context while a "mixed" app is
    /// building a program (set for the duration of `update` only)
    static MIXED_CAPS: std::cell::RefCell<Option<MixedCaps>> = const { std::cell::RefCell::new(None) };
}

pub fn mixed_caps() -> Option<MixedCaps> {
    MIXED_CAPS.with(|m| m.borrow().clone())
}

#[derive(Serialize, Deserialize, Clone, Debug, PartialEq, Eq, Default)]
pub struct ViewModel {
    pub log: Vec<Logged>,
}

fn apply<Ef: LabEffect>(
    event: Event,
    model: &mut Model,
    legacy: Option<&d::Capabilities>,
) -> Command<Ef, Event> {
    // re-entrancy / concurrency monitor: the flag must be clear on entry
    if model.in_update.swap(true, Ordering::SeqCst) {
        UPDATE_REENTERED.fetch_add(1, Ordering::SeqCst);
    }
    UPDATES.fetch_add(1, Ordering::Relaxed);
    if matches!(event, Event::StartMixed(_)) {
        model.mixed = true;
    }
    if model.mixed {
        let caps = legacy.expect("StartMixed needs the derive app");
        MIXED_CAPS.with(|m| *m.borrow_mut() = Some((caps.op.context.clone(), caps.sig.context.clone())));
    }
    let cmd = match event {
        Event::Out {
            tag,
            val,
            trail,
            then,
        } => {
            if KEEP_LOG.load(Ordering::Relaxed) {
                model.log.push(Logged { tag, val, trail });
            }
            match then {
                Some(c) => crate::build::build::<Ef>(&c),
                None => Command::done(),
            }
        }
        Event::Start(c) | Event::StartMixed(c) => crate::build::build::<Ef>(&c),
        Event::StartLegacy(c) => {
            let caps = legacy.expect("StartLegacy needs the derive app");
            crate::build::start_legacy(&c, caps);
            Command::done()
        }
        Event::Noop | Event::Pad(_) => Command::done(),
        Event::Cancel(h) => {
            call_abort(h);
            Command::done()
        }
    };
    MIXED_CAPS.with(|m| *m.borrow_mut() = None);
    model.in_update.store(false, Ordering::SeqCst);
    cmd
}

#[derive(Default)]
pub struct AppM;

impl crux_core::App for AppM {
    type Event = Event;
    type Model = Model;
    type ViewModel = ViewModel;
    type Capabilities = ();
    type Effect = m::Effect;

    fn update(&self, event: Event, model: &mut Model, _caps: &()) -> Command<m::Effect, Event> {
        apply::<m::Effect>(event, model, None)
    }

    fn view(&self, model: &Model) -> ViewModel {
        ViewModel {
            log: model.log.clone(),
        }
    }
}

#[derive(Default)]
pub struct AppD;

impl crux_core::App for AppD {
    type Event = Event;
    type Model = Model;
    type ViewModel = ViewModel;
    type Capabilities = d::Capabilities;
    type Effect = d::Effect;

    fn update(
        &self,
        event: Event,
        model: &mut Model,
        caps: &d::Capabilities,
    ) -> Command<d::Effect, Event> {
        apply::<d::Effect>(event, model, Some(caps))
    }

    fn view(&self, model: &Model) -> ViewModel {
        ViewModel {
            log: model.log.clone(),
        }
    }
}

// ---------------------------------------------------------------------------
// Registries shared between built programs and the driver
// ---------------------------------------------------------------------------

type AbortFn = Box<dyn Fn() + Send + Sync>;

thread_local! {
    /// which host of a lock-step run is currently executing (each host builds the same
    /// program, so handle and counter ids repeat between hosts)
    static SLOT: std::cell::Cell<u32> = const { std::cell::Cell::new(0) };
}

pub fn set_slot(slot: u32) {
    SLOT.with(|s| s.set(slot));
}

fn slot() -> u32 {
    SLOT.with(|s| s.get())
}

/// Abort handles recorded by `Abortable`, keyed by (host slot, handle id). The handle type
/// itself cannot be named outside crux_core, so a closure calling `abort()` is stored.
pub static ABORTS: Mutex<Option<HashMap<(u32, u32), AbortFn>>> = Mutex::new(None);

/// Drop-counted values created by `Hold`: (host slot, counter id) -> (created, dropped)
pub static HOLDS: Mutex<Option<HashMap<(u32, u32), (u32, u32)>>> = Mutex::new(None);

pub fn reset_registries() {
    *ABORTS.lock().unwrap() = Some(HashMap::new());
    *HOLDS.lock().unwrap() = Some(HashMap::new());
}

pub fn register_abort(handle: u32, f: AbortFn) {
    ABORTS
        .lock()
        .unwrap()
        .get_or_insert_with(HashMap::new)
        .insert((slot(), handle), f);
}

/// returns false when no such handle has been registered (yet)
pub fn call_abort(handle: u32) -> bool {
    let guard = ABORTS.lock().unwrap();
    match guard.as_ref().and_then(|m| m.get(&(slot(), handle))) {
        Some(f) => {
            f();
            true
        }
        None => false,
    }
}

pub struct HoldGuard(u32, u32);

impl HoldGuard {
    pub fn new(counter: u32) -> Self {
        let s = slot();
        HOLDS
            .lock()
            .unwrap()
            .get_or_insert_with(HashMap::new)
            .entry((s, counter))
            .or_insert((0, 0))
            .0 += 1;
        HoldGuard(s, counter)
    }
}

impl Drop for HoldGuard {
    fn drop(&mut self) {
        if let Ok(mut g) = HOLDS.lock() {
            g.get_or_insert_with(HashMap::new)
                .entry((self.0, self.1))
                .or_insert((0, 0))
                .1 += 1;
        }
    }
}

/// (created, dropped) for a counter in the current slot
pub fn hold_state(counter: u32) -> (u32, u32) {
    HOLDS
        .lock()
        .unwrap()
        .as_ref()
        .and_then(|m| m.get(&(slot(), counter)).copied())
        .unwrap_or((0, 0))
}
