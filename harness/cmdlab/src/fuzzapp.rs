//! A *total* app for the malformed-input checks (C12): `update` cannot panic for any decoded
//! event, so every panic observed belongs to the bridge or the serde stack.

use crux_core::capability::Operation;
use crux_core::macros::effect;
use crux_core::Command;
use serde::{Deserialize, Serialize};

#[derive(Serialize, Deserialize, Clone, Debug, PartialEq, Eq)]
pub struct FOp {
    pub site: u32,
    pub note: String,
}

#[derive(Serialize, Deserialize, Clone, Debug, PartialEq, Eq)]
pub struct FOut {
    pub a: u64,
    pub s: String,
    #[serde(with = "serde_bytes_compat")]
    pub b: Vec<u8>,
    pub o: Option<u16>,
    pub list: Vec<i32>,
}

/// plain Vec<u8> as a sequence of bytes with a length prefix (what serde_bytes would do), written
/// by hand to avoid another dependency
mod serde_bytes_compat {
    use serde::{Deserialize, Deserializer, Serialize, Serializer};
    pub fn serialize<S: Serializer>(v: &Vec<u8>, s: S) -> Result<S::Ok, S::Error> {
        v.serialize(s)
    }
    pub fn deserialize<'de, D: Deserializer<'de>>(d: D) -> Result<Vec<u8>, D::Error> {
        Vec::<u8>::deserialize(d)
    }
}

impl Operation for FOp {
    type Output = FOut;
}

#[derive(Serialize, Deserialize, Clone, Debug, PartialEq, Eq)]
pub struct FSig {
    pub site: u32,
}

impl Operation for FSig {
    type Output = ();
}

#[effect]
pub enum FEffect {
    Op(FOp),
    Sig(FSig),
}

#[derive(Serialize, Deserialize, Clone, Debug, PartialEq)]
pub enum FEvent {
    Text(String),
    Bytes(Vec<u8>),
    Num(u64),
    Signed(i64, char),
    Maybe(Option<Box<FEvent>>),
    Many(Vec<FEvent>),
    Pair { key: String, val: Vec<u16> },
    Float(f64),
    Request(u32, String),
    Stream(u32),
    Notify(u32),
    Got { site: u32, a: u64, s: String, blen: u32 },
    /// `request(site).then(request(site + 500_000))`: work that starts when the first part ends,
    /// however it ends
    Chained(u32, String),
    /// a task awaiting the join handle of a sub-task that holds the request, then asking again
    Spawned(u32),
    /// a subscription whose consumer ends after this many items
    StreamTake(u32, u8),
    /// `request(site).and(request(site + 500_000))`: two sibling tasks in one command, the first of
    /// them the command's root task
    Siblings(u32),
}

#[derive(Default)]
pub struct FModel {
    pub log: Vec<String>,
}

#[derive(Serialize, Deserialize, Clone, Debug, PartialEq, Eq, Default)]
pub struct FView {
    pub log: Vec<String>,
}

#[derive(Default)]
pub struct FuzzApp;

fn describe(e: &FEvent, depth: usize) -> String {
    match e {
        FEvent::Text(s) => format!("text:{}:{}", s.len(), s.chars().take(8).collect::<String>()),
        FEvent::Bytes(b) => format!("bytes:{}", b.len()),
        FEvent::Num(n) => format!("num:{n}"),
        FEvent::Signed(i, c) => format!("signed:{i}:{}", *c as u32),
        FEvent::Maybe(None) => "maybe:none".into(),
        FEvent::Maybe(Some(x)) => {
            if depth > 16 {
                "maybe:deep".into()
            } else {
                format!("maybe:{}", describe(x, depth + 1))
            }
        }
        FEvent::Many(v) => format!("many:{}", v.len()),
        FEvent::Pair { key, val } => format!("pair:{}:{}", key.len(), val.len()),
        FEvent::Float(f) => format!("float:{}", f.to_bits()),
        FEvent::Request(s, n) => format!("request:{s}:{}", n.len()),
        FEvent::Stream(s) => format!("stream:{s}"),
        FEvent::Notify(s) => format!("notify:{s}"),
        FEvent::Got { site, a, s, blen } => format!("got:{site}:{a}:{}:{blen}", s.len()),
        FEvent::Chained(s, n) => format!("chained:{s}:{}", n.len()),
        FEvent::Spawned(s) => format!("spawned:{s}"),
        FEvent::StreamTake(s, n) => format!("take:{s}:{n}"),
        FEvent::Siblings(s) => format!("siblings:{s}"),
    }
}

impl crux_core::App for FuzzApp {
    type Event = FEvent;
    type Model = FModel;
    type ViewModel = FView;
    type Capabilities = ();
    type Effect = FEffect;

    fn update(&self, event: FEvent, model: &mut FModel, _caps: &()) -> Command<FEffect, FEvent> {
        model.log.push(describe(&event, 0));
        if model.log.len() > 64 {
            model.log.remove(0);
        }
        let got = |site: u32| {
            move |o: FOut| FEvent::Got {
                site,
                a: o.a,
                s: o.s,
                blen: o.b.len() as u32,
            }
        };
        match event {
            FEvent::Request(site, note) => Command::request_from_shell(FOp { site, note }).then_send(got(site)),
            FEvent::Stream(site) => Command::stream_from_shell(FOp {
                site,
                note: String::new(),
            })
            .then_send(got(site)),
            FEvent::Notify(site) => Command::notify_shell(FSig { site }).into(),
            FEvent::Chained(site, note) => Command::request_from_shell(FOp { site, note })
                .then_send(got(site))
                .then(
                    Command::request_from_shell(FOp {
                        site: site + 500_000,
                        note: String::new(),
                    })
                    .then_send(got(site + 500_000)),
                ),
            FEvent::Siblings(site) => Command::request_from_shell(FOp {
                site,
                note: String::new(),
            })
            .then_send(got(site))
            .and(
                Command::request_from_shell(FOp {
                    site: site + 500_000,
                    note: String::new(),
                })
                .then_send(got(site + 500_000)),
            ),
            FEvent::StreamTake(site, n) => Command::new(move |ctx| async move {
                use futures::StreamExt as _;
                let mut items = ctx.stream_from_shell(FOp {
                    site,
                    note: String::new(),
                });
                for _ in 0..(n % 4) {
                    match items.next().await {
                        Some(o) => ctx.send_event(got(site)(o)),
                        None => break,
                    }
                }
            }),
            FEvent::Spawned(site) => Command::new(move |ctx| async move {
                let sub = ctx.spawn(move |ctx| async move {
                    let o = ctx
                        .request_from_shell(FOp {
                            site,
                            note: String::new(),
                        })
                        .await;
                    ctx.send_event(got(site)(o));
                });
                sub.await;
                let o = ctx
                    .request_from_shell(FOp {
                        site: site + 500_000,
                        note: String::new(),
                    })
                    .await;
                ctx.send_event(got(site + 500_000)(o));
            }),
            _ => Command::done(),
        }
    }

    fn view(&self, model: &FModel) -> FView {
        FView {
            log: model.log.clone(),
        }
    }
}
