//! Reference model of command semantics. Never touches crux.
//!
//! Maximal-progress semantics: after each driver action everything that action
//! enables has happened. The model is order-insensitive between concurrent parts;
//! the generator only produces programs for which that makes the per-step multiset
//! of outputs unique (see DESIGN.md §3.1).

use std::collections::{BTreeMap, HashMap, VecDeque};

use serde::Serialize;

use crate::ast::*;
use crate::build::mix;

pub type Key = (u32, u64);
pub type TaskId = usize;
pub type CmdId = usize;

#[derive(Clone, Debug, PartialEq, Eq, PartialOrd, Ord, Hash, Serialize)]
pub struct EffObs {
    pub site: u32,
    pub arg: u64,
    pub kind: u8,
    pub trail: Vec<u8>,
}

#[derive(Clone, Debug, PartialEq, Eq, PartialOrd, Ord, Hash, Serialize)]
pub struct EvObs {
    pub tag: u32,
    pub val: u64,
    pub trail: Vec<u8>,
}

#[derive(Clone, Copy, Debug, PartialEq, Eq, Serialize)]
pub enum Tri {
    Yes,
    No,
    Unknown,
}

#[derive(Clone, Copy, Debug, PartialEq, Eq, Serialize)]
pub enum Expect {
    Ok,
    Err,
    Any,
}

#[derive(Clone, Debug, Default, Serialize)]
pub struct Pred {
    pub effects: Vec<EffObs>,
    /// (group = emitting model task, event); the order within one group is the emission order
    pub events: Vec<(usize, EvObs)>,
    pub done: Option<Tri>,
    pub resolve: Option<Expect>,
    /// expected verdicts of the resolutions inside a `Batch`, in order (None for drops)
    pub batch_resolve: Vec<Option<Expect>>,
    /// a task is stuck in the FuturesUnordered class (known finding for C07): the ideal
    /// semantics discards it, the implementation keeps it for ever
    pub fu_stuck: bool,
    /// live tasks in the root command as the ideal semantics sees it (Direct mode)
    pub live_root_tasks: usize,
}

#[derive(Clone, Copy, Debug, PartialEq, Eq)]
pub struct Mode {
    /// events are applied by `update` (follow-up programs start), roots are hosted
    pub core: bool,
    /// legacy capability API: no eviction, no abort, scripts only
    pub legacy: bool,
    /// the root command is itself hosted (inside the core or inside wrapper commands):
    /// an abort of the root is noticed at its next poll, not at once
    pub hosted: bool,
    /// scripts issue their shell requests through capability contexts although they run as
    /// Command tasks: such requests do not pass through the command's `map_effect` layers
    pub mixed: bool,
}

impl Mode {
    pub const MIXED: Mode = Mode { core: true, legacy: false, hosted: true, mixed: true };
    pub const DIRECT: Mode = Mode { core: false, legacy: false, hosted: false, mixed: false };
    pub const NESTED: Mode = Mode { core: false, legacy: false, hosted: true, mixed: false };
    pub const CORE: Mode = Mode { core: true, legacy: false, hosted: true, mixed: false };
    pub const LEGACY: Mode = Mode { core: true, legacy: true, hosted: true, mixed: false };
}

#[derive(Clone, Debug)]
struct MReq {
    kind: u8,
    owner: TaskId,
    inbox: VecDeque<u64>,
    resolved_once: bool,
    /// the shell dropped the request object
    closed: bool,
    /// the receiving future / stream still exists
    receiver_alive: bool,
}

#[derive(Clone, Debug)]
struct MCmd {
    /// tasks of this command run on the legacy executor: never evicted
    legacy: bool,
    parent: Option<TaskId>,
    tasks: Vec<TaskId>,
    started: bool,
    aborted: bool,
    cleared: bool,
    done: bool,
}

#[derive(Clone, Debug)]
enum ReqSt {
    Unissued,
    Waiting(Key),
    Done,
}

#[derive(Clone, Debug)]
struct StreamSt {
    key: Key,
    issued: bool,
    ended: bool,
    /// receiver end of a task-to-task channel (index into `Model::pipes`) instead of a shell stream
    pipe: Option<usize>,
}

#[derive(Clone, Debug)]
struct Pipe {
    queue: VecDeque<u64>,
    consumer: TaskId,
    /// the producer task (and with it the sender) is gone
    closed: bool,
}

#[derive(Clone, Debug)]
enum HeadSt {
    Req { site: u32, st: ReqSt },
    Stream(StreamSt),
}

#[derive(Clone, Debug)]
enum StageSt {
    Map(u8),
    ReqThenReq { site: u32, st: ReqSt },
    StreamThenReq { site: u32, inner: Option<Key> },
    ReqThenStream { site: u32, inner: Option<StreamSt> },
    StreamThenStream { site: u32, inners: Vec<StreamSt>, up_ended: bool },
}

#[derive(Clone, Debug)]
struct ChainSt {
    head: HeadSt,
    stages: Vec<StageSt>,
    tag: u32,
    stream_terminal: bool,
    has_fu: bool,
}

#[derive(Clone, Debug)]
enum Blocked {
    Req(Key),
    Next(usize),
    Join(TaskId),
    JoinAll { keys: Vec<Key>, got: Vec<Option<u64>> },
    Select { keys: Vec<Key> },
    Fu { keys: Vec<Key>, done: Vec<bool> },
    JoinMixed { keys: Vec<Key>, got: Vec<Option<u64>>, targets: Vec<TaskId> },
}

#[derive(Clone, Debug)]
struct ScriptSt {
    instrs: Vec<Instr>,
    pc: usize,
    regs: Vec<u64>,
    streams: Vec<Option<StreamSt>>,
    handles: Vec<TaskId>,
    holds: Vec<u32>,
    blocked: Option<Blocked>,
    /// sender end of a task-to-task channel
    pipe_out: Option<usize>,
}

#[derive(Clone, Debug)]
enum Tk {
    LeafDone,
    LeafEvent(u32, Option<Box<Cmd>>),
    LeafNotify(u32),
    Host {
        child: CmdId,
        map_event: Option<u8>,
        map_effect: Option<u8>,
        /// drop-counted value captured by the mapping closure at build time
        guard: Option<u32>,
    },
    ThenHost {
        first: CmdId,
        second_ast: Option<Box<Cmd>>,
        second: Option<CmdId>,
    },
    Chain(ChainSt),
    Script(ScriptSt),
}

#[derive(Clone, Debug)]
struct MTask {
    cmd: CmdId,
    alive: bool,
    aborted: bool,
    ran: bool,
    joiner: Option<TaskId>,
    fu_stuck: bool,
    /// legacy capability API: markers of the `map_event` layers of the capability this task
    /// (and every task it spawns) was started with, innermost first
    legacy_trail: Vec<u8>,
    kind: Tk,
}

enum Pull {
    Item(u64),
    Pending,
    End,
}

#[derive(Clone)]
pub struct Model {
    pub mode: Mode,
    cmds: Vec<MCmd>,
    tasks: Vec<MTask>,
    reqs: BTreeMap<Key, MReq>,
    handles: HashMap<u32, CmdId>,
    roots: Vec<CmdId>,
    ready: VecDeque<TaskId>,
    eff_out: Vec<EffObs>,
    ev_out: Vec<(usize, EvObs)>,
    pending_roots: Vec<Box<Cmd>>,
    pipes: Vec<Pipe>,
    started_any: bool,
    /// counter -> (created, dropped)
    pub holds: HashMap<u32, (u32, u32)>,
    pub steps: usize,
}

/// A request the driver may act on, as the model sees it
#[derive(Clone, Debug, Serialize)]
pub struct Outstanding {
    pub key: Key,
    pub kind: u8,
    pub resolved_once: bool,
    pub receiver_alive: bool,
}

impl Model {
    pub fn new(mode: Mode) -> Self {
        Model {
            mode,
            cmds: vec![],
            tasks: vec![],
            reqs: BTreeMap::new(),
            handles: HashMap::new(),
            roots: vec![],
            ready: VecDeque::new(),
            eff_out: vec![],
            ev_out: vec![],
            pending_roots: vec![],
            pipes: vec![],
            started_any: false,
            holds: HashMap::new(),
            steps: 0,
        }
    }

    // ------------------------------------------------------------------
    // construction
    // ------------------------------------------------------------------

    fn new_cmd(&mut self, parent: Option<TaskId>) -> CmdId {
        self.cmds.push(MCmd {
            legacy: false,
            parent,
            tasks: vec![],
            started: false,
            aborted: false,
            cleared: false,
            done: false,
        });
        self.cmds.len() - 1
    }

    fn new_task(&mut self, cmd: CmdId, kind: Tk) -> TaskId {
        self.tasks.push(MTask {
            cmd,
            alive: true,
            aborted: false,
            ran: false,
            joiner: None,
            fu_stuck: false,
            legacy_trail: vec![],
            kind,
        });
        let id = self.tasks.len() - 1;
        self.cmds[cmd].tasks.push(id);
        id
    }

    fn host_child(&mut self, cmd: CmdId, child_ast: &Cmd, me: Option<u8>, mf: Option<u8>) {
        self.host_child_guarded(cmd, child_ast, me, mf, None)
    }

    fn host_child_guarded(&mut self, cmd: CmdId, child_ast: &Cmd, me: Option<u8>, mf: Option<u8>, guard: Option<u32>) {
        if let Some(g) = guard {
            // the value exists from build time on
            self.holds.entry(g).or_insert((0, 0)).0 += 1;
        }
        // reserve the host task first so that the child can point at it
        let host = self.new_task(
            cmd,
            Tk::Host {
                child: usize::MAX,
                map_event: me,
                map_effect: mf,
                guard,
            },
        );
        let child = self.instantiate(child_ast, Some(host));
        if let Tk::Host { child: c, .. } = &mut self.tasks[host].kind {
            *c = child;
        }
    }

    /// Mirror of `build`: which Command objects exist and which tasks they start with
    fn instantiate(&mut self, ast: &Cmd, parent: Option<TaskId>) -> CmdId {
        match ast {
            Cmd::Done => {
                let c = self.new_cmd(parent);
                self.new_task(c, Tk::LeafDone);
                c
            }
            Cmd::Event(tag, then) => {
                let c = self.new_cmd(parent);
                self.new_task(c, Tk::LeafEvent(*tag, then.clone()));
                c
            }
            Cmd::Notify(site) => {
                let c = self.new_cmd(parent);
                self.new_task(c, Tk::LeafNotify(*site));
                c
            }
            Cmd::Chain(chain, tag) => {
                let c = self.new_cmd(parent);
                let st = chain_state(chain, *tag);
                self.new_task(c, Tk::Chain(st));
                c
            }
            Cmd::Then(a, b) => {
                let c = self.new_cmd(parent);
                let host = self.new_task(
                    c,
                    Tk::ThenHost {
                        first: usize::MAX,
                        second_ast: Some(b.clone()),
                        second: None,
                    },
                );
                let first = self.instantiate(a, Some(host));
                if let Tk::ThenHost { first: f, .. } = &mut self.tasks[host].kind {
                    *f = first;
                }
                // handles inside `b` exist from build time on: register them now by
                // instantiating `b` eagerly as well (it only *starts* later)
                let second = self.instantiate(b, Some(host));
                if let Tk::ThenHost { second: s, .. } = &mut self.tasks[host].kind {
                    *s = Some(second);
                }
                c
            }
            Cmd::And(a, b) => {
                // `a.and(b)` is a's own command with one more task hosting b
                let c = self.instantiate(a, parent);
                self.host_child(c, b, None, None);
                c
            }
            Cmd::All(xs) | Cmd::Collect(xs) => {
                let c = self.new_cmd(parent);
                self.new_task(c, Tk::LeafDone);
                for x in xs {
                    self.host_child(c, x, None, None);
                }
                c
            }
            Cmd::MapEvent(inner, k) => {
                let c = self.new_cmd(parent);
                // marker 0 is the identity mapping
                self.host_child(c, inner, Some(*k).filter(|k| *k != 0), None);
                c
            }
            Cmd::MapEffect(inner, k) => {
                let c = self.new_cmd(parent);
                self.host_child(c, inner, None, Some(*k).filter(|k| *k != 0));
                c
            }
            Cmd::FromInto(inner) => {
                // four identity-mapping layers; one is enough for the model
                let c = self.new_cmd(parent);
                self.host_child(c, inner, None, None);
                c
            }
            Cmd::Guarded(inner, counter) => {
                let c = self.new_cmd(parent);
                self.host_child_guarded(c, inner, None, None, Some(*counter));
                c
            }
            Cmd::Abortable(inner, h) => {
                let c = self.instantiate(inner, parent);
                self.handles.insert(*h, c);
                c
            }
            Cmd::Async(script) => {
                let c = self.new_cmd(parent);
                self.new_task(c, Tk::Script(script_state(script)));
                c
            }
        }
    }

    // ------------------------------------------------------------------
    // public driving interface
    // ------------------------------------------------------------------

    /// Start a program as a new root and run to quiescence.
    pub fn start(&mut self, program: &Cmd) -> Pred {
        self.begin_step();
        self.start_root(program);
        self.settle();
        self.end_step(None)
    }

    /// Register the program without starting it (Direct host: the command has been built
    /// but not polled yet, so the driver can abort it before its first poll).
    pub fn prepare(&mut self, program: &Cmd) {
        let c = self.instantiate(program, None);
        self.roots.push(c);
        self.started_any = true;
    }

    /// Abort before the first poll (only sets the flag, nothing has started yet)
    pub fn act_without_settle_abort(&mut self, handle: u32) {
        self.abort(handle);
    }

    /// First poll of a prepared program
    pub fn first_poll(&mut self) -> Pred {
        self.begin_step();
        let c = self.roots[0];
        self.start_cmd(c);
        self.settle();
        self.end_step(None)
    }

    fn start_root(&mut self, program: &Cmd) {
        // only the first program goes through the legacy API; follow-up programs returned
        // by `update` for an event are always built with the command API
        let legacy = self.mode.legacy && !self.started_any;
        self.started_any = true;
        if legacy {
            // every script of the program becomes a task of one pseudo command
            let c = self.new_cmd(None);
            self.cmds[c].legacy = true;
            self.collect_legacy(c, program);
            self.roots.push(c);
            self.start_cmd(c);
            if self.cmds[c].tasks.is_empty() {
                self.cmds[c].done = true;
            }
        } else {
            let c = self.instantiate(program, None);
            self.roots.push(c);
            self.start_cmd(c);
        }
    }

    fn collect_legacy(&mut self, c: CmdId, program: &Cmd) {
        self.collect_legacy_mapped(c, program, &[])
    }

    fn collect_legacy_mapped(&mut self, c: CmdId, program: &Cmd, trail: &[u8]) {
        match program {
            Cmd::Async(script) => {
                let t = self.new_task(c, Tk::Script(script_state(script)));
                self.tasks[t].legacy_trail = trail.to_vec();
            }
            Cmd::All(xs) | Cmd::Collect(xs) => xs.iter().for_each(|x| self.collect_legacy_mapped(c, x, trail)),
            Cmd::And(a, b) => {
                self.collect_legacy_mapped(c, a, trail);
                self.collect_legacy_mapped(c, b, trail);
            }
            // a child capability made with `map_event` (marker 0 = identity): the inner marker
            // is applied first
            Cmd::MapEvent(inner, k) => {
                let mut t: Vec<u8> = if *k == 0 { vec![] } else { vec![*k] };
                t.extend_from_slice(trail);
                self.collect_legacy_mapped(c, inner, &t)
            }
            Cmd::Done => {}
            other => panic!("not a legacy program: {other:?}"),
        }
    }

    pub fn act(&mut self, action: &Action) -> Pred {
        if let Action::Batch(subs) = action {
            // sequential application with everything in between settled: the generator only
            // emits batches whose members commute, so this equals "all at once"
            let mut merged = Pred::default();
            for s in subs {
                let p = self.act(s);
                merged.effects.extend(p.effects);
                merged.events.extend(p.events);
                merged.batch_resolve.push(p.resolve);
                merged.done = p.done;
                merged.fu_stuck = p.fu_stuck;
                merged.live_root_tasks = p.live_root_tasks;
            }
            return merged;
        }
        self.begin_step();
        let mut expect = None;
        match action {
            Action::Resolve { site, arg, val } => {
                expect = Some(self.resolve((*site, *arg), *val));
            }
            Action::DropReq { site, arg } => self.drop_req((*site, *arg)),
            Action::Abort { handle } => self.abort(*handle),
            Action::Noop => {}
            Action::Extend(c) => self.extend(c),
            Action::Batch(_) => unreachable!(),
        }
        self.settle();
        self.end_step(expect)
    }

    /// Requests the shell still holds (never dropped by it), in key order
    pub fn outstanding(&self) -> Vec<Outstanding> {
        self.reqs
            .iter()
            .filter(|(_, r)| !r.closed)
            .map(|(k, r)| Outstanding {
                key: *k,
                kind: r.kind,
                resolved_once: r.resolved_once,
                receiver_alive: r.receiver_alive,
            })
            .collect()
    }

    /// Canonical text of the complete model state (hidden state included): two models with the
    /// same fingerprint behave identically from here on
    pub fn fingerprint(&self) -> String {
        let mut handles: Vec<_> = self.handles.iter().collect();
        handles.sort();
        let mut holds: Vec<_> = self.holds.iter().collect();
        holds.sort();
        format!(
            "{:?}|{:?}|{:?}|{:?}|{:?}|{:?}",
            self.cmds, self.tasks, self.reqs, self.roots, handles, holds
        )
    }

    pub fn abort_handles(&self) -> Vec<u32> {
        let mut v: Vec<u32> = self.handles.keys().copied().collect();
        v.sort();
        v
    }

    /// true while some cancelled work has not been swept yet (timing of the sweep is not
    /// part of any property, so `done` and stream-resolve results are not compared then)
    pub fn has_zombies(&self) -> bool {
        self.tasks.iter().any(|t| t.alive && t.aborted)
            || self
                .cmds
                .iter()
                .any(|c| c.aborted && !c.cleared && c.started && !c.done)
    }

    // ------------------------------------------------------------------
    // step plumbing
    // ------------------------------------------------------------------

    fn begin_step(&mut self) {
        self.eff_out.clear();
        self.ev_out.clear();
        self.steps += 1;
    }

    fn end_step(&mut self, resolve: Option<Expect>) -> Pred {
        let fu_stuck = self.tasks.iter().any(|t| t.alive && t.fu_stuck);
        let done = if self.mode.core || self.mode.legacy {
            None
        } else if self.has_zombies() {
            Some(Tri::Unknown)
        } else {
            let root = self.roots[0];
            let live = self.ideal_live(root);
            Some(if live == 0 { Tri::Yes } else { Tri::No })
        };
        let live_root_tasks = if self.roots.is_empty() {
            0
        } else {
            self.ideal_live(self.roots[0])
        };
        Pred {
            effects: std::mem::take(&mut self.eff_out),
            events: std::mem::take(&mut self.ev_out),
            done,
            resolve,
            batch_resolve: vec![],
            fu_stuck,
            live_root_tasks,
        }
    }

    /// live tasks of a command under the ideal semantics (fu-stuck tasks count as gone,
    /// and a host whose child has only such tasks left counts as gone as well)
    fn ideal_live(&self, c: CmdId) -> usize {
        self.cmds[c]
            .tasks
            .iter()
            .filter(|t| {
                let t = &self.tasks[**t];
                if !t.alive || t.fu_stuck {
                    return false;
                }
                match &t.kind {
                    Tk::Host { child, .. } => self.ideal_live(*child) > 0,
                    Tk::ThenHost { first, second, .. } => {
                        let f = &self.cmds[*first];
                        if !f.done {
                            self.ideal_live(*first) > 0
                        } else {
                            second.map(|s| self.ideal_live(s) > 0).unwrap_or(false)
                        }
                    }
                    _ => true,
                }
            })
            .count()
    }

    fn settle(&mut self) {
        loop {
            while let Some(t) = self.ready.pop_front() {
                self.run_task(t);
            }
            if self.pending_roots.is_empty() {
                break;
            }
            let roots = std::mem::take(&mut self.pending_roots);
            for r in roots {
                self.start_root(&r);
            }
        }
    }

    fn start_cmd(&mut self, c: CmdId) {
        if self.cmds[c].started {
            return;
        }
        self.cmds[c].started = true;
        if self.cmds[c].aborted {
            self.clear_cmd(c);
            return;
        }
        for t in self.cmds[c].tasks.clone() {
            self.ready.push_back(t);
        }
    }

    /// some ancestor command (or the task's own) has been aborted and not swept yet
    fn aborted_ancestor(&self, t: TaskId) -> Option<CmdId> {
        let mut found = None;
        let mut c = self.tasks[t].cmd;
        loop {
            if self.cmds[c].aborted && !self.cmds[c].cleared {
                found = Some(c); // keep the topmost
            }
            match self.cmds[c].parent {
                Some(host) => c = self.tasks[host].cmd,
                None => break,
            }
        }
        found
    }

    fn run_task(&mut self, t: TaskId) {
        if !self.tasks[t].alive {
            return;
        }
        if let Some(c) = self.aborted_ancestor(t) {
            self.clear_cmd(c);
            return;
        }
        if self.tasks[t].aborted {
            // aborted through its join handle: completes without being polled
            self.finish_task(t);
            return;
        }
        self.tasks[t].ran = true;
        let kind = std::mem::replace(&mut self.tasks[t].kind, Tk::LeafDone);
        let (kind, finished) = match kind {
            Tk::LeafDone => (Tk::LeafDone, true),
            Tk::LeafEvent(tag, then) => {
                self.emit_event(t, tag, 0, then.clone());
                (Tk::LeafEvent(tag, then), true)
            }
            Tk::LeafNotify(site) => {
                self.emit_effect(t, site, 0, KIND_NEVER);
                (Tk::LeafNotify(site), true)
            }
            Tk::Host {
                child,
                map_event,
                map_effect,
                guard,
            } => {
                self.start_cmd(child);
                let fin = self.cmds[child].done;
                (
                    Tk::Host {
                        child,
                        map_event,
                        map_effect,
                        guard,
                    },
                    fin,
                )
            }
            Tk::ThenHost {
                first,
                second_ast,
                second,
            } => {
                self.start_cmd(first);
                let mut fin = false;
                if self.cmds[first].done {
                    let s = second.expect("second instantiated");
                    self.start_cmd(s);
                    fin = self.cmds[s].done;
                }
                (
                    Tk::ThenHost {
                        first,
                        second_ast,
                        second,
                    },
                    fin,
                )
            }
            Tk::Chain(mut st) => {
                let fin = self.run_chain(t, &mut st);
                (Tk::Chain(st), fin)
            }
            Tk::Script(mut st) => {
                let fin = self.run_script(t, &mut st);
                (Tk::Script(st), fin)
            }
        };
        self.tasks[t].kind = kind;
        if finished {
            self.finish_task(t);
        }
    }

    fn finish_task(&mut self, t: TaskId) {
        if !self.tasks[t].alive {
            return;
        }
        self.tasks[t].alive = false;
        self.release_task_resources(t);
        if let Some(j) = self.tasks[t].joiner.take() {
            self.ready.push_back(j);
        }
        let c = self.tasks[t].cmd;
        self.cmds[c].tasks.retain(|x| *x != t);
        if self.cmds[c].tasks.is_empty() && self.cmds[c].started && !self.cmds[c].done {
            self.cmd_done(c);
        }
    }

    fn cmd_done(&mut self, c: CmdId) {
        self.cmds[c].done = true;
        if let Some(host) = self.cmds[c].parent {
            self.ready.push_back(host);
        }
    }

    fn release_task_resources(&mut self, t: TaskId) {
        for r in self.reqs.values_mut() {
            if r.owner == t {
                r.receiver_alive = false;
            }
        }
        let mut closed_pipe = None;
        match &mut self.tasks[t].kind {
            Tk::Script(st) => {
                for h in st.holds.drain(..) {
                    self.holds.entry(h).or_insert((0, 0)).1 += 1;
                }
                closed_pipe = st.pipe_out.take();
            }
            Tk::Host { guard, .. } => {
                if let Some(g) = guard.take() {
                    self.holds.entry(g).or_insert((0, 0)).1 += 1;
                }
            }
            _ => {}
        }
        if let Some(p) = closed_pipe {
            // the sender goes with the producer: the consumer sees the end of the channel
            self.pipes[p].closed = true;
            self.wake_pipe_consumer(p);
        }
    }

    /// Sweep an aborted command: every task in it and below it is dropped
    fn clear_cmd(&mut self, c: CmdId) {
        if self.cmds[c].cleared {
            return;
        }
        self.cmds[c].cleared = true;
        let tasks = std::mem::take(&mut self.cmds[c].tasks);
        for t in tasks {
            self.drop_task_tree(t);
        }
        if !self.cmds[c].done {
            self.cmd_done(c);
        }
    }

    fn drop_task_tree(&mut self, t: TaskId) {
        if !self.tasks[t].alive {
            return;
        }
        self.tasks[t].alive = false;
        // script tasks that were spawned but never ran still release what they hold (nothing)
        self.release_task_resources(t);
        let children: Vec<CmdId> = match &self.tasks[t].kind {
            Tk::Host { child, .. } => vec![*child],
            Tk::ThenHost { first, second, .. } => {
                let mut v = vec![*first];
                if let Some(s) = second {
                    v.push(*s);
                }
                v
            }
            _ => vec![],
        };
        for c in children {
            let tasks = std::mem::take(&mut self.cmds[c].tasks);
            self.cmds[c].done = true;
            self.cmds[c].cleared = true;
            for t in tasks {
                self.drop_task_tree(t);
            }
        }
    }

    // ------------------------------------------------------------------
    // outputs
    // ------------------------------------------------------------------

    fn trails(&self, t: TaskId) -> (Vec<u8>, Vec<u8>) {
        // (event trail, effect trail) collected from the hosts above this task, innermost first
        let mut ev = vec![];
        let mut ef = vec![];
        let mut c = self.tasks[t].cmd;
        while let Some(host) = self.cmds[c].parent {
            if let Tk::Host {
                map_event,
                map_effect,
                ..
            } = &self.tasks[host].kind
            {
                if let Some(k) = map_event {
                    ev.push(*k);
                }
                if let Some(k) = map_effect {
                    ef.push(*k);
                }
            }
            c = self.tasks[host].cmd;
        }
        (ev, ef)
    }

    fn emit_event(&mut self, t: TaskId, tag: u32, val: u64, then: Option<Box<Cmd>>) {
        let (mut trail, _) = self.trails(t);
        if !self.tasks[t].legacy_trail.is_empty() {
            let mut tr = self.tasks[t].legacy_trail.clone();
            tr.extend(trail);
            trail = tr;
        }
        self.ev_out.push((t, EvObs { tag, val, trail }));
        if self.mode.core {
            if let Some(c) = then {
                self.pending_roots.push(c);
            }
        }
    }

    fn emit_effect_script(&mut self, t: TaskId, site: u32, arg: u64, kind: u8) {
        self.emit_effect_with(t, site, arg, kind, self.mode.mixed)
    }

    fn emit_effect(&mut self, t: TaskId, site: u32, arg: u64, kind: u8) {
        self.emit_effect_with(t, site, arg, kind, false)
    }

    fn emit_effect_with(&mut self, t: TaskId, site: u32, arg: u64, kind: u8, bypass_maps: bool) {
        let (_, mut trail) = self.trails(t);
        if bypass_maps {
            trail.clear();
        }
        self.eff_out.push(EffObs {
            site,
            arg,
            kind,
            trail,
        });
        let key = (site, arg);
        assert!(
            !self.reqs.contains_key(&key),
            "generator bug: request key {key:?} issued twice"
        );
        self.reqs.insert(
            key,
            MReq {
                kind,
                owner: t,
                inbox: VecDeque::new(),
                resolved_once: false,
                closed: false,
                receiver_alive: kind != KIND_NEVER,
            },
        );
    }

    // ------------------------------------------------------------------
    // shell actions
    // ------------------------------------------------------------------

    fn owner_zombie(&self, owner: TaskId) -> bool {
        let t = &self.tasks[owner];
        t.alive && (t.aborted || t.fu_stuck || self.aborted_ancestor(owner).is_some())
    }

    fn resolve(&mut self, key: Key, val: u64) -> Expect {
        let (kind, owner, resolved_once, receiver_alive) = {
            let r = self.reqs.get(&key).expect("resolve of unknown request");
            assert!(!r.closed, "resolve of a dropped request");
            (r.kind, r.owner, r.resolved_once, r.receiver_alive)
        };
        match kind {
            KIND_NEVER => Expect::Err,
            KIND_ONCE => {
                if resolved_once {
                    return Expect::Err;
                }
                self.reqs.get_mut(&key).unwrap().resolved_once = true;
                if receiver_alive {
                    self.reqs.get_mut(&key).unwrap().inbox.push_back(val);
                    self.wake_if_registered(owner, key);
                }
                Expect::Ok
            }
            _ => {
                if receiver_alive {
                    let zombie = self.owner_zombie(owner);
                    self.reqs.get_mut(&key).unwrap().inbox.push_back(val);
                    self.wake_if_registered(owner, key);
                    if zombie {
                        Expect::Any
                    } else {
                        Expect::Ok
                    }
                } else {
                    Expect::Err
                }
            }
        }
    }

    fn drop_req(&mut self, key: Key) {
        let (owner, receiver_alive) = {
            let r = self.reqs.get_mut(&key).expect("drop of unknown request");
            assert!(!r.closed, "double drop");
            r.closed = true;
            (r.owner, r.receiver_alive)
        };
        if receiver_alive {
            self.wake_if_registered(owner, key);
        }
    }

    /// `root = root.and(other)`: one more task in the root command, hosting `other`
    fn extend(&mut self, other: &Cmd) {
        let root = self.roots[0];
        let before = self.cmds[root].tasks.len();
        self.host_child(root, other, None, None);
        let host = *self.cmds[root].tasks.last().expect("host task");
        debug_assert!(self.cmds[root].tasks.len() == before + 1);
        if self.cmds[root].aborted {
            // work added to an aborted command is cancelled work: it never runs
            self.drop_task_tree(host);
            self.cmds[root].tasks.retain(|t| *t != host);
            return;
        }
        self.cmds[root].done = false;
        if self.cmds[root].started {
            self.ready.push_back(host);
        }
    }

    fn abort(&mut self, handle: u32) {
        let Some(&c) = self.handles.get(&handle) else {
            panic!("abort of unknown handle {handle}");
        };
        if self.cmds[c].done || self.cmds[c].aborted {
            self.cmds[c].aborted = true;
            return;
        }
        self.cmds[c].aborted = true;
        // a root command held directly by the driver notices at once; hosted commands
        // notice when they are next polled
        let is_direct_root = !self.mode.hosted && self.cmds[c].parent.is_none();
        if is_direct_root && self.cmds[c].started {
            self.clear_cmd(c);
        }
    }

    fn wake_pipe_consumer(&mut self, p: usize) {
        let c = self.pipes[p].consumer;
        if !self.tasks[c].alive {
            return;
        }
        let blocked_on_it = match &self.tasks[c].kind {
            Tk::Script(st) => matches!(&st.blocked, Some(Blocked::Next(i)) if st.streams[*i].as_ref().and_then(|s| s.pipe) == Some(p)),
            _ => false,
        };
        if blocked_on_it {
            self.ready.push_back(c);
        }
    }

    fn wake_if_registered(&mut self, owner: TaskId, key: Key) {
        if !self.tasks[owner].alive {
            return;
        }
        let registered = match &self.tasks[owner].kind {
            Tk::Chain(st) => chain_blocking_keys(st, &self.reqs).contains(&key),
            Tk::Script(st) => match &st.blocked {
                Some(Blocked::Req(k)) => *k == key,
                Some(Blocked::Next(i)) => st.streams[*i].as_ref().filter(|s| s.pipe.is_none()).map(|s| s.key) == Some(key),
                Some(Blocked::JoinAll { keys, got }) => keys
                    .iter()
                    .zip(got)
                    .any(|(k, g)| *k == key && g.is_none()),
                Some(Blocked::Select { keys }) => keys.contains(&key),
                Some(Blocked::JoinMixed { keys, got, .. }) => keys
                    .iter()
                    .zip(got)
                    .any(|(k, g)| *k == key && g.is_none()),
                Some(Blocked::Fu { keys, done }) => {
                    keys.iter().zip(done).any(|(k, d)| *k == key && !*d)
                }
                _ => false,
            },
            _ => false,
        };
        if registered {
            self.ready.push_back(owner);
        }
    }

    // ------------------------------------------------------------------
    // chains
    // ------------------------------------------------------------------

    fn pull(&mut self, t: TaskId, st: &mut ChainSt, level: usize) -> Pull {
        if level == 0 {
            return match &mut st.head {
                HeadSt::Req { site, st: rs } => match rs.clone() {
                    ReqSt::Unissued => {
                        let key = (*site, 0);
                        self.emit_effect(t, *site, 0, KIND_ONCE);
                        *rs = ReqSt::Waiting(key);
                        Pull::Pending
                    }
                    ReqSt::Waiting(key) => match self.reqs.get_mut(&key).unwrap().inbox.pop_front() {
                        Some(v) => {
                            *rs = ReqSt::Done;
                            Pull::Item(v)
                        }
                        None => Pull::Pending,
                    },
                    ReqSt::Done => Pull::End,
                },
                HeadSt::Stream(ss) => self.pull_stream(t, ss),
            };
        }
        let idx = level - 1;
        // take the stage out to satisfy the borrow checker while recursing
        let mut stage = std::mem::replace(&mut st.stages[idx], StageSt::Map(0));
        let r = match &mut stage {
            StageSt::Map(k) => match self.pull(t, st, level - 1) {
                Pull::Item(v) => Pull::Item(mix(v, *k)),
                other => other,
            },
            StageSt::ReqThenReq { site, st: rs } => match rs.clone() {
                ReqSt::Unissued => match self.pull(t, st, level - 1) {
                    Pull::Item(v) => {
                        self.emit_effect(t, *site, v, KIND_ONCE);
                        *rs = ReqSt::Waiting((*site, v));
                        Pull::Pending
                    }
                    other => other,
                },
                ReqSt::Waiting(key) => match self.reqs.get_mut(&key).unwrap().inbox.pop_front() {
                    Some(v) => {
                        *rs = ReqSt::Done;
                        Pull::Item(v)
                    }
                    None => Pull::Pending,
                },
                ReqSt::Done => Pull::End,
            },
            StageSt::StreamThenReq { site, inner } => {
                if let Some(key) = *inner {
                    match self.reqs.get_mut(&key).unwrap().inbox.pop_front() {
                        Some(v) => {
                            *inner = None;
                            Pull::Item(v)
                        }
                        None => Pull::Pending,
                    }
                } else {
                    match self.pull(t, st, level - 1) {
                        Pull::Item(v) => {
                            self.emit_effect(t, *site, v, KIND_ONCE);
                            *inner = Some((*site, v));
                            Pull::Pending
                        }
                        other => other,
                    }
                }
            }
            StageSt::ReqThenStream { site, inner } => {
                if inner.is_none() {
                    match self.pull(t, st, level - 1) {
                        Pull::Item(v) => {
                            *inner = Some(StreamSt {
                                key: (*site, v),
                                issued: false,
                                ended: false,
                                pipe: None,
                            });
                        }
                        Pull::Pending => {
                            st.stages[idx] = stage;
                            return Pull::Pending;
                        }
                        Pull::End => {
                            st.stages[idx] = stage;
                            return Pull::End;
                        }
                    }
                }
                self.pull_stream(t, inner.as_mut().unwrap())
            }
            StageSt::StreamThenStream {
                site,
                inners,
                up_ended,
            } => {
                // drain whatever upstream has: every item opens one more inner stream
                while !*up_ended {
                    match self.pull(t, st, level - 1) {
                        Pull::Item(v) => {
                            let mut ss = StreamSt {
                                key: (*site, v),
                                issued: false,
                                ended: false,
                                pipe: None,
                            };
                            // a new inner stream is polled right away, which issues its request
                            if let Pull::Item(_) = self.pull_stream(t, &mut ss) {
                                unreachable!("fresh stream has no items");
                            }
                            inners.push(ss);
                        }
                        Pull::End => *up_ended = true,
                        Pull::Pending => break,
                    }
                }
                let mut out = None;
                for ss in inners.iter_mut() {
                    if ss.ended {
                        continue;
                    }
                    if let Pull::Item(v) = self.pull_stream(t, ss) {
                        out = Some(v);
                        break;
                    }
                }
                match out {
                    Some(v) => Pull::Item(v),
                    None if *up_ended && inners.iter().all(|s| s.ended) => Pull::End,
                    None => Pull::Pending,
                }
            }
        };
        st.stages[idx] = stage;
        r
    }

    fn pull_stream(&mut self, t: TaskId, ss: &mut StreamSt) -> Pull {
        self.pull_stream_from(t, ss, false)
    }

    fn pull_stream_from(&mut self, t: TaskId, ss: &mut StreamSt, script: bool) -> Pull {
        if ss.ended {
            return Pull::End;
        }
        if let Some(p) = ss.pipe {
            if let Some(v) = self.pipes[p].queue.pop_front() {
                return Pull::Item(v);
            }
            if self.pipes[p].closed {
                ss.ended = true;
                return Pull::End;
            }
            return Pull::Pending;
        }
        if !ss.issued {
            self.emit_effect_with(t, ss.key.0, ss.key.1, KIND_MANY, script && self.mode.mixed);
            ss.issued = true;
        }
        let r = self.reqs.get_mut(&ss.key).unwrap();
        if let Some(v) = r.inbox.pop_front() {
            return Pull::Item(v);
        }
        if r.closed {
            ss.ended = true;
            return Pull::End;
        }
        Pull::Pending
    }

    /// returns true when the task has finished
    fn run_chain(&mut self, t: TaskId, st: &mut ChainSt) -> bool {
        let top = st.stages.len();
        loop {
            match self.pull(t, st, top) {
                Pull::Item(v) => {
                    self.emit_event(t, st.tag, v, None);
                    if !st.stream_terminal {
                        return true;
                    }
                }
                Pull::End => return true,
                Pull::Pending => break,
            }
        }
        // blocked: can anything still wake it?
        if !chain_has_live_source(st, st.stages.len(), &self.reqs) {
            if st.has_fu {
                self.tasks[t].fu_stuck = true;
                return false;
            }
            return true; // discarded: same bookkeeping as finishing
        }
        false
    }

    // ------------------------------------------------------------------
    // scripts
    // ------------------------------------------------------------------

    fn take(&mut self, key: Key) -> Option<u64> {
        self.reqs.get_mut(&key).unwrap().inbox.pop_front()
    }

    fn closed(&self, key: Key) -> bool {
        self.reqs[&key].closed
    }

    fn mark_receiver_dead(&mut self, key: Key) {
        self.reqs.get_mut(&key).unwrap().receiver_alive = false;
    }

    /// returns true when the task has finished (or is discarded)
    fn run_script(&mut self, t: TaskId, st: &mut ScriptSt) -> bool {
        let evict = !self.cmds[self.tasks[t].cmd].legacy;
        loop {
            // first see whether what we were blocked on lets us continue
            if let Some(b) = st.blocked.take() {
                match b {
                    Blocked::Req(key) => match self.take(key) {
                        Some(v) => {
                            st.regs.push(v);
                            self.mark_receiver_dead(key);
                            st.pc += 1;
                        }
                        None => {
                            st.blocked = Some(Blocked::Req(key));
                            return evict && self.closed(key);
                        }
                    },
                    Blocked::Next(i) => {
                        let mut ss = st.streams[i].take().expect("blocked on a live stream");
                        match self.pull_stream_from(t, &mut ss, true) {
                            Pull::Item(v) => {
                                st.regs.push(v);
                                st.streams[i] = Some(ss);
                                st.pc += 1;
                            }
                            Pull::End => {
                                st.regs.push(0);
                                if ss.pipe.is_none() {
                                    self.mark_receiver_dead(ss.key);
                                }
                                st.pc += 1;
                            }
                            Pull::Pending => {
                                st.streams[i] = Some(ss);
                                st.blocked = Some(Blocked::Next(i));
                                return false;
                            }
                        }
                    }
                    Blocked::Join(target) => {
                        if self.tasks[target].alive {
                            self.tasks[target].joiner = Some(t);
                            st.blocked = Some(Blocked::Join(target));
                            return false;
                        }
                        st.pc += 1;
                    }
                    Blocked::JoinAll { keys, mut got } => {
                        for (k, g) in keys.iter().zip(got.iter_mut()) {
                            if g.is_none() {
                                if let Some(v) = self.take(*k) {
                                    *g = Some(v);
                                    self.mark_receiver_dead(*k);
                                }
                            }
                        }
                        if got.iter().all(|g| g.is_some()) {
                            st.regs.extend(got.iter().map(|g| g.unwrap()));
                            st.pc += 1;
                        } else {
                            let live = keys
                                .iter()
                                .zip(&got)
                                .any(|(k, g)| g.is_none() && !self.closed(*k));
                            st.blocked = Some(Blocked::JoinAll { keys, got });
                            return evict && !live;
                        }
                    }
                    Blocked::JoinMixed { keys, mut got, targets } => {
                        for (k, g) in keys.iter().zip(got.iter_mut()) {
                            if g.is_none() {
                                if let Some(v) = self.take(*k) {
                                    *g = Some(v);
                                    self.mark_receiver_dead(*k);
                                }
                            }
                        }
                        let mut any_alive = false;
                        for target in &targets {
                            if self.tasks[*target].alive {
                                self.tasks[*target].joiner = Some(t);
                                any_alive = true;
                            }
                        }
                        if got.iter().all(|g| g.is_some()) && !any_alive {
                            st.regs.extend(got.iter().map(|g| g.unwrap()));
                            st.pc += 1;
                        } else {
                            let live = any_alive
                                || keys
                                    .iter()
                                    .zip(&got)
                                    .any(|(k, g)| g.is_none() && !self.closed(*k));
                            st.blocked = Some(Blocked::JoinMixed { keys, got, targets });
                            return evict && !live;
                        }
                    }
                    Blocked::Select { keys } => {
                        let mut winner = None;
                        for k in &keys {
                            if let Some(v) = self.take(*k) {
                                winner = Some(v);
                                break;
                            }
                        }
                        match winner {
                            Some(v) => {
                                st.regs.push(v);
                                for k in &keys {
                                    self.mark_receiver_dead(*k);
                                }
                                st.pc += 1;
                            }
                            None => {
                                let live = keys.iter().any(|k| !self.closed(*k));
                                st.blocked = Some(Blocked::Select { keys });
                                return evict && !live;
                            }
                        }
                    }
                    Blocked::Fu { keys, mut done } => {
                        for (k, d) in keys.iter().zip(done.iter_mut()) {
                            if !*d {
                                if let Some(v) = self.take(*k) {
                                    *d = true;
                                    st.regs.push(v);
                                    self.mark_receiver_dead(*k);
                                }
                            }
                        }
                        if done.iter().all(|d| *d) {
                            st.pc += 1;
                        } else {
                            let live = keys
                                .iter()
                                .zip(&done)
                                .any(|(k, d)| !*d && !self.closed(*k));
                            st.blocked = Some(Blocked::Fu { keys, done });
                            if !live && evict {
                                self.tasks[t].fu_stuck = true;
                            }
                            return false;
                        }
                    }
                }
                continue;
            }
            if st.pc >= st.instrs.len() {
                return true;
            }
            match st.instrs[st.pc].clone() {
                Instr::Req { site, arg } => {
                    let a = arg.map(|r| st.regs[r]).unwrap_or(0);
                    self.emit_effect_script(t, site, a, KIND_ONCE);
                    st.blocked = Some(Blocked::Req((site, a)));
                    return false; // a fresh request always suspends the task once
                }
                Instr::Open { site } => {
                    st.streams.push(Some(StreamSt {
                        key: (site, 0),
                        issued: false,
                        ended: false,
                        pipe: None,
                    }));
                    st.pc += 1;
                }
                Instr::Next { stream } => {
                    if st.streams[stream].is_some() {
                        st.blocked = Some(Blocked::Next(stream));
                    } else {
                        st.regs.push(0);
                        st.pc += 1;
                    }
                }
                Instr::Emit { tag, reg } => {
                    let v = reg.map(|r| st.regs[r]).unwrap_or(0);
                    self.emit_event(t, tag, v, None);
                    st.pc += 1;
                }
                Instr::EmitThen { tag, cmd } => {
                    self.emit_event(t, tag, 0, Some(cmd));
                    st.pc += 1;
                }
                Instr::Notify { site } => {
                    self.emit_effect_script(t, site, 0, KIND_NEVER);
                    st.pc += 1;
                }
                Instr::Spawn { script } => {
                    let c = self.tasks[t].cmd;
                    let id = self.new_task(c, Tk::Script(script_state(&script)));
                    self.tasks[id].legacy_trail = self.tasks[t].legacy_trail.clone();
                    self.ready.push_back(id);
                    st.handles.push(id);
                    st.pc += 1;
                }
                Instr::SpawnPipe { script } => {
                    let c = self.tasks[t].cmd;
                    let p = self.pipes.len();
                    self.pipes.push(Pipe {
                        queue: VecDeque::new(),
                        consumer: t,
                        closed: false,
                    });
                    let mut child = script_state(&script);
                    child.pipe_out = Some(p);
                    let id = self.new_task(c, Tk::Script(child));
                    self.tasks[id].legacy_trail = self.tasks[t].legacy_trail.clone();
                    self.ready.push_back(id);
                    st.handles.push(id);
                    st.streams.push(Some(StreamSt {
                        key: (0, 0),
                        issued: true,
                        ended: false,
                        pipe: Some(p),
                    }));
                    st.pc += 1;
                }
                Instr::Send { reg } => {
                    if let Some(p) = st.pipe_out {
                        let v = reg.map(|r| st.regs[r]).unwrap_or(0);
                        self.pipes[p].queue.push_back(v);
                        self.wake_pipe_consumer(p);
                    }
                    st.pc += 1;
                }
                Instr::Join { handle } => {
                    st.blocked = Some(Blocked::Join(st.handles[handle]));
                }
                Instr::Abort { handle } => {
                    let target = st.handles[handle];
                    if self.tasks[target].alive {
                        self.tasks[target].aborted = true;
                    }
                    st.pc += 1;
                }
                Instr::JoinAll { sites } => {
                    let keys: Vec<Key> = sites.iter().map(|s| (*s, 0)).collect();
                    for s in &sites {
                        self.emit_effect_script(t, *s, 0, KIND_ONCE);
                    }
                    if keys.is_empty() {
                        st.pc += 1;
                    } else {
                        let n = keys.len();
                        st.blocked = Some(Blocked::JoinAll {
                            keys,
                            got: vec![None; n],
                        });
                        return false;
                    }
                }
                Instr::JoinMixed { sites, handles } => {
                    let keys: Vec<Key> = sites.iter().map(|s| (*s, 0)).collect();
                    for s in &sites {
                        self.emit_effect_script(t, *s, 0, KIND_ONCE);
                    }
                    let n = keys.len();
                    let targets: Vec<TaskId> = handles.iter().map(|h| st.handles[*h]).collect();
                    st.blocked = Some(Blocked::JoinMixed {
                        keys,
                        got: vec![None; n],
                        targets,
                    });
                    // evaluated at once: the requests are fresh (pending), the sub-tasks may be done
                    if n > 0 {
                        // a fresh request always suspends the task once; register with the sub-tasks
                        for target in st.handles.iter() {
                            let _ = target;
                        }
                        if let Some(Blocked::JoinMixed { targets, .. }) = &st.blocked {
                            for target in targets {
                                if self.tasks[*target].alive {
                                    self.tasks[*target].joiner = Some(t);
                                }
                            }
                        }
                        return false;
                    }
                }
                Instr::Select { sites } => {
                    let keys: Vec<Key> = sites.iter().map(|s| (*s, 0)).collect();
                    for s in &sites {
                        self.emit_effect_script(t, *s, 0, KIND_ONCE);
                    }
                    st.blocked = Some(Blocked::Select { keys });
                    return false;
                }
                Instr::Yield { .. } | Instr::Abandon { .. } => {
                    st.pc += 1;
                }
                Instr::AbortCmd { .. } => panic!("AbortCmd is only used by the model-free cases"),
                Instr::Hold { counter } => {
                    self.holds.entry(counter).or_insert((0, 0)).0 += 1;
                    st.holds.push(counter);
                    st.pc += 1;
                }
                Instr::JoinAllUnordered { sites } => {
                    let keys: Vec<Key> = sites.iter().map(|s| (*s, 0)).collect();
                    for s in &sites {
                        self.emit_effect_script(t, *s, 0, KIND_ONCE);
                    }
                    if keys.is_empty() {
                        st.pc += 1;
                    } else {
                        let n = keys.len();
                        st.blocked = Some(Blocked::Fu {
                            keys,
                            done: vec![false; n],
                        });
                        return false;
                    }
                }
            }
        }
    }
}

fn script_state(script: &Script) -> ScriptSt {
    ScriptSt {
        instrs: script.instrs.clone(),
        pc: 0,
        regs: vec![],
        streams: vec![],
        handles: vec![],
        holds: vec![],
        blocked: None,
        pipe_out: None,
    }
}

fn chain_state(chain: &Chain, tag: u32) -> ChainSt {
    let mut is_stream = matches!(chain.head, Head::Stream(_));
    let head = match chain.head {
        Head::Request(site) => HeadSt::Req {
            site,
            st: ReqSt::Unissued,
        },
        Head::Stream(site) => HeadSt::Stream(StreamSt {
            key: (site, 0),
            issued: false,
            ended: false,
            pipe: None,
        }),
    };
    let mut has_fu = false;
    let mut stages = vec![];
    for s in &chain.stages {
        stages.push(match (s, is_stream) {
            (Stage::Map(k), _) => StageSt::Map(*k),
            (Stage::ThenRequest(site), false) => StageSt::ReqThenReq {
                site: *site,
                st: ReqSt::Unissued,
            },
            (Stage::ThenRequest(site), true) => StageSt::StreamThenReq {
                site: *site,
                inner: None,
            },
            (Stage::ThenStream(site), false) => {
                is_stream = true;
                StageSt::ReqThenStream {
                    site: *site,
                    inner: None,
                }
            }
            (Stage::ThenStream(site), true) => {
                has_fu = true;
                StageSt::StreamThenStream {
                    site: *site,
                    inners: vec![],
                    up_ended: false,
                }
            }
        });
    }
    ChainSt {
        head,
        stages,
        tag,
        stream_terminal: is_stream,
        has_fu,
    }
}

fn chain_blocking_keys(st: &ChainSt, reqs: &BTreeMap<Key, MReq>) -> Vec<Key> {
    fn go(st: &ChainSt, level: usize, out: &mut Vec<Key>) {
        if level == 0 {
            match &st.head {
                HeadSt::Req {
                    st: ReqSt::Waiting(k),
                    ..
                } => out.push(*k),
                HeadSt::Stream(ss) if ss.issued && !ss.ended => out.push(ss.key),
                _ => {}
            }
            return;
        }
        match &st.stages[level - 1] {
            StageSt::Map(_) => go(st, level - 1, out),
            StageSt::ReqThenReq { st: rs, .. } => match rs {
                ReqSt::Unissued => go(st, level - 1, out),
                ReqSt::Waiting(k) => out.push(*k),
                ReqSt::Done => {}
            },
            StageSt::StreamThenReq { inner, .. } => match inner {
                Some(k) => out.push(*k),
                None => go(st, level - 1, out),
            },
            StageSt::ReqThenStream { inner, .. } => match inner {
                None => go(st, level - 1, out),
                Some(ss) => {
                    if ss.issued && !ss.ended {
                        out.push(ss.key)
                    }
                }
            },
            StageSt::StreamThenStream {
                inners, up_ended, ..
            } => {
                if !*up_ended {
                    go(st, level - 1, out);
                }
                for ss in inners {
                    if ss.issued && !ss.ended {
                        out.push(ss.key);
                    }
                }
            }
        }
    }
    let _ = reqs;
    let mut out = vec![];
    go(st, st.stages.len(), &mut out);
    out
}

fn chain_has_live_source(st: &ChainSt, level: usize, reqs: &BTreeMap<Key, MReq>) -> bool {
    if level == 0 {
        return match &st.head {
            HeadSt::Req { st: rs, .. } => match rs {
                ReqSt::Unissued => true,
                ReqSt::Waiting(k) => !reqs[k].closed,
                ReqSt::Done => false,
            },
            HeadSt::Stream(ss) => !ss.ended,
        };
    }
    match &st.stages[level - 1] {
        StageSt::Map(_) => chain_has_live_source(st, level - 1, reqs),
        StageSt::ReqThenReq { st: rs, .. } => match rs {
            ReqSt::Unissued => chain_has_live_source(st, level - 1, reqs),
            ReqSt::Waiting(k) => !reqs[k].closed,
            ReqSt::Done => false,
        },
        StageSt::StreamThenReq { inner, .. } => match inner {
            Some(k) => !reqs[k].closed,
            None => chain_has_live_source(st, level - 1, reqs),
        },
        StageSt::ReqThenStream { inner, .. } => match inner {
            None => chain_has_live_source(st, level - 1, reqs),
            Some(ss) => !ss.ended,
        },
        StageSt::StreamThenStream {
            inners, up_ended, ..
        } => {
            (!*up_ended && chain_has_live_source(st, level - 1, reqs))
                || inners.iter().any(|s| !s.ended)
        }
    }
}
