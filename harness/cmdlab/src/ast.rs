//! Program AST. A replay file *is* a program plus an action history.

use serde::{Deserialize, Serialize};

/// How a request is expected to be resolved
pub const KIND_ONCE: u8 = 0;
pub const KIND_MANY: u8 = 1;
pub const KIND_NEVER: u8 = 2;

#[derive(Serialize, Deserialize, Clone, Debug, PartialEq, Eq)]
pub enum Cmd {
    Done,
    /// `Command::event(Out{tag})`; with a follow-up program the event makes `update`
    /// return that program (Core-based hosts only)
    Event(u32, Option<Box<Cmd>>),
    /// `Command::notify_shell(Sig{site}).into()`
    Notify(u32),
    /// builder chain ending in `then_send(|v| Out{tag, val: v})`
    Chain(Chain, u32),
    Then(Box<Cmd>, Box<Cmd>),
    And(Box<Cmd>, Box<Cmd>),
    All(Vec<Cmd>),
    /// `FromIterator` (collect) — must equal `All`
    Collect(Vec<Cmd>),
    MapEvent(Box<Cmd>, u8),
    MapEffect(Box<Cmd>, u8),
    /// `Command::from(c.into())`
    FromInto(Box<Cmd>),
    /// `c.map_event(identity closure that captured a drop-counted value at build time)`:
    /// the value must be dropped when the mapping task ends or is cancelled, started or not
    Guarded(Box<Cmd>, u32),
    /// records `cmd.abort_handle()` under the handle id
    Abortable(Box<Cmd>, u32),
    /// `Command::new(|ctx| interpreter(script))`
    Async(Script),
}

#[derive(Serialize, Deserialize, Clone, Debug, PartialEq, Eq)]
pub struct Chain {
    pub head: Head,
    pub stages: Vec<Stage>,
}

#[derive(Serialize, Deserialize, Clone, Debug, PartialEq, Eq)]
pub enum Head {
    Request(u32),
    Stream(u32),
}

#[derive(Serialize, Deserialize, Clone, Debug, PartialEq, Eq)]
pub enum Stage {
    Map(u8),
    ThenRequest(u32),
    ThenStream(u32),
}

#[derive(Serialize, Deserialize, Clone, Debug, PartialEq, Eq, Default)]
pub struct Script {
    pub instrs: Vec<Instr>,
}

#[derive(Serialize, Deserialize, Clone, Debug, PartialEq, Eq)]
pub enum Instr {
    /// one-shot request; arg is the value of a register (or 0); result into a new register
    Req { site: u32, arg: Option<usize> },
    /// open a stream; pushes a stream slot
    Open { site: u32 },
    /// next item of a stream into a new register (0 when the stream has ended)
    Next { stream: usize },
    /// emit `Out{tag, val: reg or 0}`
    Emit { tag: u32, reg: Option<usize> },
    /// emit an event that makes `update` return `cmd` (Core-based hosts)
    EmitThen { tag: u32, cmd: Box<Cmd> },
    Notify { site: u32 },
    /// spawn a sub-task; pushes a join handle slot
    Spawn { script: Script },
    Join { handle: usize },
    Abort { handle: usize },
    /// `join_all` of one-shot requests; results into new registers
    JoinAll { sites: Vec<u32> },
    /// first of several one-shot requests to resolve wins (left-biased), the rest are dropped
    Select { sites: Vec<u32> },
    /// return Pending `n` times after waking ourselves; `drop_waker` uses `wake()` on a clone
    /// (wake then drop) instead of `wake_by_ref`
    Yield { n: u8, drop_waker: bool },
    /// hold a drop-counted value until the task ends
    Hold { counter: u32 },
    /// `FuturesUnordered` of one-shot requests (known-finding class for C07)
    JoinAllUnordered { sites: Vec<u32> },
    /// `join(join_all(requests), join_all(join handles))`: wait for shell requests and for
    /// sub-tasks at the same time
    JoinMixed { sites: Vec<u32>, handles: Vec<usize> },
    /// task-to-task channel: spawn a producer sub-task holding the sender of a fresh unbounded
    /// channel; pushes a join handle slot and a stream slot (the receiver) in this task
    SpawnPipe { script: Script },
    /// producer side: send a register (or 0) into the channel this task was spawned with
    Send { reg: Option<usize> },
    /// create a one-shot request future and drop it without ever polling it (the branch not
    /// taken): nothing is sent, nothing may stay behind
    Abandon { site: u32 },
    /// abort a command through the handle an `Abortable` registered, from inside a task (a
    /// "stopper"). Only used by the model-free conservation cases.
    AbortCmd { handle: u32 },
}

impl Cmd {
    pub fn size(&self) -> usize {
        match self {
            Cmd::Done | Cmd::Notify(_) => 1,
            Cmd::Event(_, c) => 1 + c.as_ref().map(|c| c.size()).unwrap_or(0),
            Cmd::Chain(c, _) => 1 + c.stages.len(),
            Cmd::Then(a, b) | Cmd::And(a, b) => 1 + a.size() + b.size(),
            Cmd::All(xs) | Cmd::Collect(xs) => 1 + xs.iter().map(|x| x.size()).sum::<usize>(),
            Cmd::MapEvent(c, _)
            | Cmd::MapEffect(c, _)
            | Cmd::FromInto(c)
            | Cmd::Guarded(c, _)
            | Cmd::Abortable(c, _) => 1 + c.size(),
            Cmd::Async(s) => 1 + s.size(),
        }
    }

    pub fn depth(&self) -> usize {
        match self {
            Cmd::Done | Cmd::Notify(_) | Cmd::Chain(..) => 1,
            Cmd::Event(_, c) => 1 + c.as_ref().map(|c| c.depth()).unwrap_or(0),
            Cmd::Then(a, b) | Cmd::And(a, b) => 1 + a.depth().max(b.depth()),
            Cmd::All(xs) | Cmd::Collect(xs) => 1 + xs.iter().map(|x| x.depth()).max().unwrap_or(0),
            Cmd::MapEvent(c, _)
            | Cmd::MapEffect(c, _)
            | Cmd::FromInto(c)
            | Cmd::Guarded(c, _)
            | Cmd::Abortable(c, _) => 1 + c.depth(),
            Cmd::Async(s) => 1 + s.depth(),
        }
    }

    /// names of the constructors used (coverage histogram)
    pub fn constructors(&self, out: &mut Vec<&'static str>) {
        match self {
            Cmd::Done => out.push("Done"),
            Cmd::Event(_, None) => out.push("Event"),
            Cmd::Event(_, Some(c)) => {
                out.push("EventThen");
                c.constructors(out)
            }
            Cmd::Notify(_) => out.push("Notify"),
            Cmd::Chain(c, _) => {
                out.push(match c.head {
                    Head::Request(_) => "Chain.Request",
                    Head::Stream(_) => "Chain.Stream",
                });
                let mut is_stream = matches!(c.head, Head::Stream(_));
                for s in &c.stages {
                    out.push(match (s, is_stream) {
                        (Stage::Map(_), false) => "Request.map",
                        (Stage::Map(_), true) => "Stream.map",
                        (Stage::ThenRequest(_), false) => "Request.then_request",
                        (Stage::ThenRequest(_), true) => "Stream.then_request",
                        (Stage::ThenStream(_), false) => "Request.then_stream",
                        (Stage::ThenStream(_), true) => "Stream.then_stream",
                    });
                    if matches!(s, Stage::ThenStream(_)) {
                        is_stream = true;
                    }
                }
            }
            Cmd::Then(a, b) => {
                out.push("Then");
                a.constructors(out);
                b.constructors(out)
            }
            Cmd::And(a, b) => {
                out.push("And");
                a.constructors(out);
                b.constructors(out)
            }
            Cmd::All(xs) => {
                out.push("All");
                xs.iter().for_each(|x| x.constructors(out))
            }
            Cmd::Collect(xs) => {
                out.push("Collect");
                xs.iter().for_each(|x| x.constructors(out))
            }
            Cmd::MapEvent(c, _) => {
                out.push("MapEvent");
                c.constructors(out)
            }
            Cmd::MapEffect(c, _) => {
                out.push("MapEffect");
                c.constructors(out)
            }
            Cmd::FromInto(c) => {
                out.push("FromInto");
                c.constructors(out)
            }
            Cmd::Guarded(c, _) => {
                out.push("Guarded");
                c.constructors(out)
            }
            Cmd::Abortable(c, _) => {
                out.push("Abortable");
                c.constructors(out)
            }
            Cmd::Async(s) => {
                out.push("Async");
                s.constructors(out)
            }
        }
    }
}

impl Script {
    pub fn size(&self) -> usize {
        self.instrs
            .iter()
            .map(|i| match i {
                Instr::Spawn { script } | Instr::SpawnPipe { script } => 1 + script.size(),
                Instr::EmitThen { cmd, .. } => 1 + cmd.size(),
                _ => 1,
            })
            .sum()
    }

    pub fn depth(&self) -> usize {
        1 + self
            .instrs
            .iter()
            .map(|i| match i {
                Instr::Spawn { script } | Instr::SpawnPipe { script } => script.depth(),
                Instr::EmitThen { cmd, .. } => cmd.depth(),
                _ => 0,
            })
            .max()
            .unwrap_or(0)
    }

    pub fn constructors(&self, out: &mut Vec<&'static str>) {
        for i in &self.instrs {
            match i {
                Instr::Req { .. } => out.push("i.Req"),
                Instr::Open { .. } => out.push("i.Open"),
                Instr::Next { .. } => out.push("i.Next"),
                Instr::Emit { .. } => out.push("i.Emit"),
                Instr::EmitThen { cmd, .. } => {
                    out.push("i.EmitThen");
                    cmd.constructors(out)
                }
                Instr::Notify { .. } => out.push("i.Notify"),
                Instr::Spawn { script } => {
                    out.push("i.Spawn");
                    script.constructors(out)
                }
                Instr::Join { .. } => out.push("i.Join"),
                Instr::Abort { .. } => out.push("i.Abort"),
                Instr::JoinAll { .. } => out.push("i.JoinAll"),
                Instr::Select { .. } => out.push("i.Select"),
                Instr::Yield { .. } => out.push("i.Yield"),
                Instr::Hold { .. } => out.push("i.Hold"),
                Instr::Abandon { .. } => out.push("i.Abandon"),
                Instr::AbortCmd { .. } => out.push("i.AbortCmd"),
                Instr::JoinAllUnordered { .. } => out.push("i.JoinAllUnordered"),
                Instr::SpawnPipe { script } => {
                    out.push("i.SpawnPipe");
                    script.constructors(out)
                }
                Instr::Send { .. } => out.push("i.Send"),
                Instr::JoinMixed { .. } => out.push("i.JoinMixed"),
            }
        }
    }
}

/// What the driver (playing the shell) does in one step
#[derive(Serialize, Deserialize, Clone, Debug, PartialEq, Eq)]
pub enum Action {
    /// resolve the request identified by (site, arg) with a value
    Resolve { site: u32, arg: u64, val: u64 },
    /// drop the request object without (further) resolving it
    DropReq { site: u32, arg: u64 },
    /// abort the command registered under this handle
    Abort { handle: u32 },
    /// a shell event that does nothing (core hosts: `process_event(Noop)`)
    Noop,
    /// the holder of the command extends it from outside: `cmd = cmd.and(other)` (hosts that
    /// hold the command object only)
    Extend(Box<Cmd>),
    /// several shell actions (resolve / drop) before the command or core runs again; only
    /// generated when the actions commute in the reference model
    Batch(Vec<Action>),
}

#[derive(Serialize, Deserialize, Clone, Debug, PartialEq, Eq)]
pub struct Case {
    pub program: Cmd,
    pub actions: Vec<Action>,
}
