//! C12: malformed input across the bridge fails cleanly. A valid history runs on an attacked
//! bridge and a twin; at every position malformed events and malformed responses to every
//! outstanding request are offered to the attacked bridge only. Monitors: panic trap, counting
//! allocator (allocation cap), per-case hang watchdog, twin comparison.

use std::alloc::{GlobalAlloc, Layout, System};
use std::collections::BTreeMap;
use std::sync::atomic::{AtomicUsize, Ordering};
use std::sync::{Arc, Mutex};
use std::time::Duration;

use bincode::Options;
use cmdlab::fuzzapp::*;
use crux_core::bridge::{Bridge, BridgeWithSerializer};
use crux_core::Core;
use serde::Deserialize;
use serde_json::json;
use vcommon::{fnv64, Args, Report, Rng, Watchdog};

// ---------------------------------------------------------------------------
// counting allocator
// ---------------------------------------------------------------------------

struct Counting;

static CURRENT: AtomicUsize = AtomicUsize::new(0);
static PEAK: AtomicUsize = AtomicUsize::new(0);
static MAX_SINGLE: AtomicUsize = AtomicUsize::new(0);
/// a single request above this is refused (the process then aborts; the driver reports it)
const REFUSE_ABOVE: usize = 4 << 30;

unsafe impl GlobalAlloc for Counting {
    unsafe fn alloc(&self, layout: Layout) -> *mut u8 {
        let size = layout.size();
        MAX_SINGLE.fetch_max(size, Ordering::Relaxed);
        if size > REFUSE_ABOVE {
            return std::ptr::null_mut();
        }
        let p = System.alloc(layout);
        if !p.is_null() {
            let cur = CURRENT.fetch_add(size, Ordering::Relaxed) + size;
            PEAK.fetch_max(cur, Ordering::Relaxed);
        }
        p
    }
    unsafe fn dealloc(&self, ptr: *mut u8, layout: Layout) {
        CURRENT.fetch_sub(layout.size(), Ordering::Relaxed);
        System.dealloc(ptr, layout)
    }
    unsafe fn realloc(&self, ptr: *mut u8, layout: Layout, new_size: usize) -> *mut u8 {
        MAX_SINGLE.fetch_max(new_size, Ordering::Relaxed);
        if new_size > REFUSE_ABOVE {
            return std::ptr::null_mut();
        }
        let p = System.realloc(ptr, layout, new_size);
        if !p.is_null() {
            if new_size >= layout.size() {
                let cur = CURRENT.fetch_add(new_size - layout.size(), Ordering::Relaxed) + new_size - layout.size();
                PEAK.fetch_max(cur, Ordering::Relaxed);
            } else {
                CURRENT.fetch_sub(layout.size() - new_size, Ordering::Relaxed);
            }
        }
        p
    }
}

#[global_allocator]
static ALLOC: Counting = Counting;

/// allocation above the level at the start of a call that counts as "unbounded" for inputs
/// of at most a few kilobytes
const ALLOC_CAP: usize = 64 << 20;

fn measure<T>(f: impl FnOnce() -> T) -> (T, usize, usize) {
    let base = CURRENT.load(Ordering::Relaxed);
    PEAK.store(base, Ordering::Relaxed);
    MAX_SINGLE.store(0, Ordering::Relaxed);
    let r = f();
    let peak = PEAK.load(Ordering::Relaxed).saturating_sub(base);
    (r, peak, MAX_SINGLE.load(Ordering::Relaxed))
}

// ---------------------------------------------------------------------------
// bridges
// ---------------------------------------------------------------------------

fn opts() -> impl bincode::Options + Copy {
    bincode::DefaultOptions::new()
        .with_fixint_encoding()
        .allow_trailing_bytes()
}

#[derive(Deserialize, Debug, Clone, PartialEq)]
enum Ffi {
    Op(FOp),
    Sig(FSig),
}

#[derive(Deserialize, Debug, Clone)]
struct WireReq {
    id: u32,
    effect: Ffi,
}

struct B {
    bin: Option<Bridge<FuzzApp>>,
    json: Option<BridgeWithSerializer<FuzzApp>>,
}

impl B {
    fn new(json: bool) -> B {
        if json {
            B {
                bin: None,
                json: Some(BridgeWithSerializer::new(Core::new())),
            }
        } else {
            B {
                bin: Some(Bridge::new(Core::new())),
                json: None,
            }
        }
    }
    fn event(&self, bytes: &[u8]) -> Result<Vec<u8>, String> {
        if let Some(b) = &self.bin {
            b.process_event(bytes).map_err(|e| e.to_string())
        } else {
            let mut out = vec![];
            let mut de = serde_json::Deserializer::from_slice(bytes);
            let mut ser = serde_json::Serializer::new(&mut out);
            self.json
                .as_ref()
                .unwrap()
                .process_event(&mut de, &mut ser)
                .map_err(|e| e.to_string())?;
            Ok(out)
        }
    }
    fn response(&self, id: u32, bytes: &[u8]) -> Result<Vec<u8>, String> {
        if let Some(b) = &self.bin {
            b.handle_response(id, bytes).map_err(|e| e.to_string())
        } else {
            let mut out = vec![];
            let mut de = serde_json::Deserializer::from_slice(bytes);
            let mut ser = serde_json::Serializer::new(&mut out);
            self.json
                .as_ref()
                .unwrap()
                .handle_response(id, &mut de, &mut ser)
                .map_err(|e| e.to_string())?;
            Ok(out)
        }
    }
    fn view(&self) -> Vec<u8> {
        if let Some(b) = &self.bin {
            b.view().expect("view")
        } else {
            let mut out = vec![];
            let mut ser = serde_json::Serializer::new(&mut out);
            self.json.as_ref().unwrap().view(&mut ser).expect("view");
            out
        }
    }
    fn decode(&self, out: &[u8]) -> Result<Vec<WireReq>, String> {
        if self.bin.is_some() {
            opts().deserialize(out).map_err(|e| e.to_string())
        } else {
            serde_json::from_slice(out).map_err(|e| e.to_string())
        }
    }
    fn ser<T: serde::Serialize>(&self, v: &T) -> Vec<u8> {
        if self.bin.is_some() {
            opts().serialize(v).unwrap()
        } else {
            serde_json::to_vec(v).unwrap()
        }
    }
    fn is_stream(&self, id: u32) -> Option<bool> {
        let reg = match (&self.bin, &self.json) {
            (Some(b), _) => b.verif_registry(),
            (_, Some(b)) => b.verif_registry(),
            _ => vec![],
        };
        reg.iter().find(|(i, _)| *i == id).map(|(_, k)| *k == crux_core::verif::RegistryKind::Many)
    }
    fn registry_len(&self) -> usize {
        match (&self.bin, &self.json) {
            (Some(b), _) => b.verif_registry().len(),
            (_, Some(b)) => b.verif_registry().len(),
            _ => 0,
        }
    }
}

// ---------------------------------------------------------------------------
// generators
// ---------------------------------------------------------------------------

fn text(rng: &mut Rng) -> String {
    match rng.below(5) {
        0 => String::new(),
        1 => "héllo \u{1F980}".into(),
        2 => "x".repeat(rng.range(20, 300) as usize),
        _ => format!("t{}", rng.below(100000)),
    }
}

fn data_event(rng: &mut Rng, depth: usize) -> FEvent {
    match rng.below(if depth > 2 { 6 } else { 8 }) {
        0 => FEvent::Text(text(rng)),
        1 => {
            let n = rng.below(40) as usize;
            FEvent::Bytes(rng.bytes(n))
        }
        2 => FEvent::Num(rng.next_u64() >> rng.range(0, 60)),
        3 => FEvent::Signed(-(rng.below(1 << 40) as i64), *rng.pick(&['a', 'é', '\u{1F980}'])),
        4 => FEvent::Pair {
            key: text(rng),
            val: (0..rng.below(6)).map(|_| rng.below(65536) as u16).collect(),
        },
        5 => FEvent::Float(rng.below(1000) as f64 / 3.0),
        6 => FEvent::Maybe(if rng.chance(1, 3) {
            None
        } else {
            Some(Box::new(data_event(rng, depth + 1)))
        }),
        _ => FEvent::Many((0..rng.below(4)).map(|_| data_event(rng, depth + 1)).collect()),
    }
}

fn out_value(rng: &mut Rng) -> FOut {
    let n = rng.below(30) as usize;
    FOut {
        a: rng.next_u64() >> rng.range(0, 60),
        s: text(rng),
        b: rng.bytes(n),
        o: if rng.chance(1, 2) { Some(rng.below(65536) as u16) } else { None },
        list: (0..rng.below(5)).map(|_| rng.below(1000) as i32 - 500).collect(),
    }
}

/// malformed variants of a valid encoding
fn mutations(valid: &[u8], rng: &mut Rng, json: bool, thorough: bool) -> Vec<(&'static str, Vec<u8>)> {
    let mut out: Vec<(&'static str, Vec<u8>)> = vec![];
    // random bytes
    for _ in 0..3 {
        let n = rng.below(64) as usize;
        out.push(("random-bytes", rng.bytes(n)));
    }
    out.push(("empty", vec![]));
    // truncation at every length (sampled in quick)
    let step = if thorough || valid.len() < 24 { 1 } else { (valid.len() / 12).max(1) };
    let mut i = 0;
    while i < valid.len() {
        out.push(("truncated", valid[..i].to_vec()));
        i += step;
    }
    // extension
    let mut ext = valid.to_vec();
    let n = rng.range(1, 16) as usize;
    ext.extend(rng.bytes(n));
    out.push(("extended", ext));
    // bit flips
    let nbits = valid.len() * 8;
    let flips = if thorough { nbits.min(512) } else { nbits.min(24) };
    for k in 0..flips {
        let bit = if flips == nbits { k } else { rng.usize_below(nbits.max(1)) };
        let mut v = valid.to_vec();
        if !v.is_empty() {
            v[bit / 8] ^= 1 << (bit % 8);
            out.push(("bit-flip", v));
        }
    }
    if !json {
        // every 8-byte window as a corrupted length field
        let mut pos = 0;
        let stride = if thorough { 1 } else { 4 };
        while pos + 8 <= valid.len() {
            let cur = u64::from_le_bytes(valid[pos..pos + 8].try_into().unwrap());
            for val in [0u64, 1, cur.wrapping_add(1), cur.wrapping_sub(1), 1 << 31, 1 << 63, u64::MAX, u64::MAX / 2, 0x1000_0000, 0xffff_ffff] {
                let mut v = valid.to_vec();
                v[pos..pos + 8].copy_from_slice(&val.to_le_bytes());
                out.push(("length-field", v));
            }
            pos += stride;
        }
        // every 4-byte window as a corrupted variant index
        let mut pos = 0;
        while pos + 4 <= valid.len().min(64) {
            for val in [u32::MAX, 12, 255, 1 << 31] {
                let mut v = valid.to_vec();
                v[pos..pos + 4].copy_from_slice(&val.to_le_bytes());
                out.push(("variant-index", v));
            }
            pos += 4;
        }
    } else {
        let s = String::from_utf8_lossy(valid).to_string();
        out.push(("json-unbalanced", format!("{s}}}]]").into_bytes()));
        out.push(("json-unbalanced", s.trim_end_matches(['}', ']', '"']).as_bytes().to_vec()));
        let deep = if thorough { 10_000 } else { 2_000 };
        out.push(("json-deep-nesting", format!("{}1{}", "[".repeat(deep), "]".repeat(deep)).into_bytes()));
        out.push(("json-deep-nesting", format!("{}", "{\"Maybe\":".repeat(deep)).into_bytes()));
        out.push(("json-wrong-type", b"42".to_vec()));
        out.push(("json-wrong-type", b"\"Text\"".to_vec()));
        out.push(("json-wrong-type", b"{\"Num\":\"not a number\"}".to_vec()));
        out.push(("json-wrong-type", b"{\"Nope\":1}".to_vec()));
        out.push(("json-huge-number", format!("{{\"Num\":1{}}}", "0".repeat(400)).into_bytes()));
        out.push(("json-huge-number", b"{\"Num\":-1}".to_vec()));
        out.push(("json-huge-number", b"{\"Float\":1e999999}".to_vec()));
        out.push(("json-invalid-utf8", vec![b'"', 0xff, 0xfe, b'"']));
        out.push(("json-null-bytes", b"{\"Text\":\"a\\u0000b\"}\0\0".to_vec()));
        out.push(("json-escapes", b"{\"Text\":\"\\ud800\"}".to_vec()));
    }
    if cfg!(miri) {
        // the interpreter is four orders of magnitude slower: a sample of every mutation class
        let mut kept: Vec<(&'static str, Vec<u8>)> = vec![];
        let mut seen: BTreeMap<&'static str, usize> = BTreeMap::new();
        rng.shuffle(&mut out);
        for (k, b) in out {
            let n = seen.entry(k).or_insert(0);
            if *n < 2 {
                *n += 1;
                kept.push((k, b));
            }
        }
        return kept;
    }
    out
}

#[derive(Clone, Debug)]
struct Outstanding {
    site: u32,
    stream: bool,
    id_a: u32,
    id_t: u32,
}

fn main() {
    let args = Args::parse();
    if args.prop == "noop" {
        return;
    }
    vcommon::install_panic_hook();
    let report = Arc::new(Mutex::new(Report::new(&args.prop)));
    let wd = Watchdog::start(report.clone(), args.out.clone(), Duration::from_secs(120));
    let n_histories = args.share(240, 40_000);
    let seed = args.worker_seed();
    let thorough = args.thorough();
    for h in 0..n_histories {
        let mut rng = Rng::derive(seed, h, 12);
        let json = rng.chance(1, 3);
        run_history(&mut rng, json, thorough, &report, &wd, h);
    }
    report.lock().unwrap().finish(&args);
}

fn run_history(rng: &mut Rng, json: bool, thorough: bool, report: &Arc<Mutex<Report>>, wd: &Watchdog, hno: u64) {
    let mut a = B::new(json);
    let mut t = B::new(json);
    let wire = if json { "json" } else { "bincode" };
    let mut outstanding: Vec<Outstanding> = vec![];
    let mut next_site = 1u32;
    let steps = if cfg!(miri) { rng.range(3, 5) } else { rng.range(3, 14) };
    let mut poisoned = false;
    for step in 0..steps {
        if poisoned {
            break;
        }
        // ---- attack at this position ---------------------------------------------------------
        // (1) malformed events
        let valid_event = a.ser(&data_event(rng, 0));
        for (kind, bytes) in mutations(&valid_event, rng, json, thorough) {
            let view_before = a.view();
            let reg_before = a.registry_len();
            wd.begin(|| json!({"lane": "bridgefuzz", "wire": wire, "target": "event", "mutation": kind, "bytes_hex": hex(&bytes), "history": hno, "step": step}).to_string());
            let (res, peak, max_single) = measure(|| vcommon::trap(|| a.event(&bytes)));
            wd.end();
            let mut r = report.lock().unwrap();
            r.eval();
            r.count("malformed_events_offered", 1);
            r.set("mutations", kind);
            r.set("wires", wire);
            r.max("max_allocation_during_a_call", peak as u64);
            let replay = json!({"lane": "bridgefuzz", "wire": wire, "target": "event", "mutation": kind, "bytes_hex": hex(&bytes), "history": hno, "step": step});
            if peak > ALLOC_CAP || max_single > ALLOC_CAP {
                r.violation(&format!("malformed/unbounded-allocation/{kind}"), &format!("a {}-byte malformed event made the bridge allocate {} bytes (largest single request {})", bytes.len(), peak, max_single), replay.clone());
            }
            match res {
                Err(p) => {
                    r.violation(&format!("malformed/event-panics/{}", vcommon::panic_site(&p)), &format!("a malformed event panicked: {}", p.lines().next().unwrap_or("")), replay);
                    poisoned = true;
                    break;
                }
                Ok(Err(_)) => {
                    r.count("events_rejected", 1);
                    // a rejected event leaves the app exactly as it was
                    let same = a.view() == view_before && a.registry_len() == reg_before;
                    if !same {
                        r.violation("malformed/rejected-event-changed-the-app", "the view or the registry changed although the event was rejected", replay);
                    } else {
                        r.nontrivial(fnv64(&bytes) ^ fnv64(kind.as_bytes()) ^ hno);
                    }
                }
                Ok(Ok(out)) => {
                    // the mutation happens to be a valid encoding: the twin gets it too
                    r.count("mutations_that_were_valid_encodings", 1);
                    drop(r);
                    let tout = t.event(&bytes);
                    let mut r = report.lock().unwrap();
                    match tout {
                        Ok(tout) => {
                            absorb(&a, &t, &out, &tout, &mut outstanding, &mut r, &replay);
                        }
                        Err(e) => r.violation("malformed/twin-disagrees-on-validity", &format!("same bytes accepted by one bridge, rejected by its twin: {e}"), replay),
                    }
                }
            }
        }
        if poisoned {
            break;
        }
        // (2) malformed responses to every outstanding request
        let targets: Vec<Outstanding> = outstanding.clone();
        for o in targets {
            if poisoned {
                break;
            }
            let valid = a.ser(&out_value(rng));
            let muts = mutations(&valid, rng, json, thorough);
            // one-shot requests are used up by the first rejected response: one mutation each,
            // streams take them all
            let take = if o.stream { muts.len() } else { 1 };
            let start = if o.stream { 0 } else { rng.usize_below(muts.len()) };
            for (kind, bytes) in muts.into_iter().skip(start).take(take) {
                let view_before = a.view();
                wd.begin(|| json!({"lane": "bridgefuzz", "wire": wire, "target": "response", "stream": o.stream, "mutation": kind, "bytes_hex": hex(&bytes), "history": hno, "step": step}).to_string());
                let (res, peak, max_single) = measure(|| vcommon::trap(|| a.response(o.id_a, &bytes)));
                wd.end();
                let mut r = report.lock().unwrap();
                r.eval();
                r.count("malformed_responses_offered", 1);
                r.set("mutations", kind);
                r.set("response_targets", if o.stream { "stream" } else { "one-shot" });
                r.max("max_allocation_during_a_call", peak as u64);
                let replay = json!({"lane": "bridgefuzz", "wire": wire, "target": "response", "stream": o.stream, "mutation": kind, "bytes_hex": hex(&bytes), "history": hno, "step": step});
                if peak > ALLOC_CAP || max_single > ALLOC_CAP {
                    r.violation(&format!("malformed/unbounded-allocation/{kind}"), &format!("a {}-byte malformed response made the bridge allocate {} bytes (largest single request {})", bytes.len(), peak, max_single), replay.clone());
                }
                match res {
                    Err(p) => {
                        r.violation(&format!("malformed/response-panics/{}", vcommon::panic_site(&p)), &format!("a malformed response panicked: {}", p.lines().next().unwrap_or("")), replay);
                        poisoned = true;
                        break;
                    }
                    Ok(Err(_)) => {
                        r.count("responses_rejected", 1);
                        if a.view() != view_before {
                            r.violation("malformed/rejected-response-changed-the-app", "the view changed although the response was rejected", replay.clone());
                        } else {
                            r.nontrivial(fnv64(&bytes) ^ fnv64(kind.as_bytes()) ^ hno ^ 0x55);
                        }
                        if !o.stream {
                            // the addressed one-shot request may be used up by this: it leaves the pool on both
                            // bridges (the twin answers it properly so that both stay comparable)
                            outstanding.retain(|x| x.site != o.site);
                            drop(r);
                            // the task that waited is cancelled by this, but only when the core next
                            // runs: until then another rejected call must not run it either
                            if rng.chance(1, 2) {
                                let reg_before = a.registry_len();
                                let view_before = a.view();
                                // (encodings that are certainly invalid: an accepted event would run the core)
                                let junk: Vec<(&str, Vec<u8>)> = if json {
                                    vec![("empty", vec![]), ("json-wrong-type", b"{\"Nope\":1}".to_vec()), ("json-unbalanced", b"{\"Num\":".to_vec())]
                                } else {
                                    vec![("empty", vec![]), ("variant-index", vec![0xff; 4]), ("truncated", vec![0, 0, 0, 0, 9])]
                                };
                                let (kind2, bytes2) = &junk[rng.usize_below(junk.len())];
                                if let Ok(Err(_)) = vcommon::trap(|| a.event(bytes2)) {
                                    let mut r = report.lock().unwrap();
                                    r.count("malformed_events_offered_right_after_a_rejected_response", 1);
                                    if a.view() != view_before || a.registry_len() != reg_before {
                                        r.violation(
                                            "malformed/rejected-event-changed-the-app",
                                            "the view or the registry changed although the event was rejected (work was pending from a rejected response)",
                                            json!({"lane": "bridgefuzz", "wire": wire, "target": "event after rejected response", "mutation": kind2, "bytes_hex": hex(bytes2), "history": hno, "step": step}),
                                        );
                                    }
                                }
                            }
                            let ok = t.ser(&out_value(rng));
                            let tout = t.response(o.id_t, &ok);
                            // the continuation event of the twin is not mirrored on the attacked bridge: note it
                            // by sending the equivalent `Got` event there. That call also lets the core notice
                            // the cancelled task: whatever starts when that task ends (the second half of a
                            // `then`, a task joining it) starts here, as it did on the twin
                            let tv = view_strings(&t);
                            let got_line = tv.iter().rev().find(|l| l.starts_with(&format!("got:{}:", o.site))).cloned();
                            let aout = match got_line {
                                Some(line) => mirror_got(&a, &line, json),
                                None => None,
                            };
                            if let (Some(aout), Ok(tout)) = (aout, tout) {
                                if std::env::var("BF_DEBUG").is_ok() {
                                    eprintln!("DBG h={hno} step={step} site={} kind={kind} a={:?} t={:?} aview={:?}", o.site, a.decode(&aout), t.decode(&tout), view_strings(&a).iter().rev().take(4).collect::<Vec<_>>());
                                }
                                let mut r = report.lock().unwrap();
                                absorb(&a, &t, &aout, &tout, &mut outstanding, &mut r, &replay);
                            }
                        }
                    }
                    Ok(Ok(out)) => {
                        r.count("mutations_that_were_valid_encodings", 1);
                        drop(r);
                        let tout = t.response(o.id_t, &bytes);
                        let mut r = report.lock().unwrap();
                        if !o.stream {
                            outstanding.retain(|x| x.site != o.site);
                        }
                        match tout {
                            Ok(tout) => absorb(&a, &t, &out, &tout, &mut outstanding, &mut r, &replay),
                            Err(e) => r.violation("malformed/twin-disagrees-on-validity", &format!("same response bytes accepted by one bridge, rejected by its twin: {e}"), replay),
                        }
                    }
                }
            }
        }
        if poisoned {
            break;
        }
        // ---- one valid step on both bridges ----------------------------------------------------
        let choice = rng.below(10);
        let replay = json!({"lane": "bridgefuzz", "wire": wire, "history": hno, "step": step, "phase": "valid step after attacks"});
        let pair = if choice < 4 || outstanding.is_empty() {
            let ev = match rng.below(9) {
                8 => {
                    next_site += 1;
                    FEvent::Siblings(next_site)
                }
                0 | 1 => {
                    next_site += 1;
                    FEvent::Request(next_site, text(rng))
                }
                6 => {
                    next_site += 1;
                    FEvent::Chained(next_site, text(rng))
                }
                7 => {
                    next_site += 1;
                    if rng.chance(1, 2) { FEvent::Spawned(next_site) } else { FEvent::StreamTake(next_site, rng.below(4) as u8) }
                }
                2 => {
                    next_site += 1;
                    FEvent::Stream(next_site)
                }
                3 => {
                    next_site += 1;
                    FEvent::Notify(next_site)
                }
                _ => data_event(rng, 0),
            };
            let bytes = a.ser(&ev);
            (vcommon::trap(|| a.event(&bytes)), t.event(&bytes))
        } else {
            let i = rng.usize_below(outstanding.len());
            let o = outstanding[i].clone();
            let bytes = a.ser(&out_value(rng));
            if !o.stream {
                outstanding.remove(i);
            }
            (vcommon::trap(|| a.response(o.id_a, &bytes)), t.response(o.id_t, &bytes))
        };
        let mut r = report.lock().unwrap();
        r.count("valid_steps", 1);
        match pair {
            (Err(p), _) => {
                r.violation(&format!("malformed/later-valid-call-panics/{}", vcommon::panic_site(&p)), &format!("after malformed input a valid call panicked: {}", p.lines().next().unwrap_or("")), replay);
                poisoned = true;
            }
            (Ok(Ok(out)), Ok(tout)) => absorb(&a, &t, &out, &tout, &mut outstanding, &mut r, &replay),
            (Ok(Err(ea)), Err(et)) if ea == et => {
                // a well-formed item for a subscription whose consumer has ended: rejected, the same
                // way on both bridges
                r.count("valid_calls_rejected_the_same_way_on_both_bridges", 1);
            }
            (Ok(ra), rt) => {
                r.violation(
                    "malformed/later-valid-call-differs-from-twin",
                    &format!("after malformed input a valid call behaves differently from the twin: {:?} vs {:?}", ra.as_ref().map(|_| "ok").map_err(|e| e.clone()), rt.as_ref().map(|_| "ok").map_err(|e| e.clone())),
                    replay,
                );
                poisoned = true;
            }
        }
        if !poisoned && view_strings(&a) != view_strings(&t) {
            r.violation(
                "malformed/view-differs-from-twin",
                "after malformed input the app's view differs from a twin that never saw it",
                json!({"lane": "bridgefuzz", "wire": wire, "history": hno, "step": step, "attacked": view_strings(&a), "twin": view_strings(&t)}),
            );
            poisoned = true;
        }
    }
    let _ = (&mut a, &mut t);
    let mut r = report.lock().unwrap();
    r.count("histories", 1);
    r.sample(|| json!({"wire": wire, "steps": steps, "note": "every step is preceded by malformed events and malformed responses to each outstanding request"}));
}

fn view_strings(b: &B) -> Vec<String> {
    let bytes = b.view();
    let v: FView = if b.bin.is_some() {
        opts().deserialize(&bytes).unwrap_or_default()
    } else {
        serde_json::from_slice(&bytes).unwrap_or_default()
    };
    v.log
}

/// keep the attacked bridge's log comparable after the twin completed a request that the
/// attacked bridge lost to a malformed response: replay the twin's last log line as data
fn mirror_got(a: &B, last_line: &str, _json: bool) -> Option<Vec<u8>> {
    // "got:site:a:slen:blen"
    let parts: Vec<&str> = last_line.split(':').collect();
    if parts.first() != Some(&"got") || parts.len() != 5 {
        return None;
    }
    let ev = FEvent::Got {
        site: parts[1].parse().unwrap_or(0),
        a: parts[2].parse().unwrap_or(0),
        s: "x".repeat(parts[3].parse().unwrap_or(0)),
        blen: parts[4].parse().unwrap_or(0),
    };
    a.event(&a.ser(&ev)).ok()
}

/// decode both effect batches, compare them modulo ids, and track what is outstanding
fn absorb(a: &B, t: &B, out: &[u8], tout: &[u8], outstanding: &mut Vec<Outstanding>, r: &mut Report, replay: &serde_json::Value) {
    let (ra, rt) = match (a.decode(out), t.decode(tout)) {
        (Ok(x), Ok(y)) => (x, y),
        (x, y) => {
            r.violation("malformed/effects-do-not-decode", &format!("{:?} / {:?}", x.err(), y.err()), replay.clone());
            return;
        }
    };
    let key = |w: &WireReq| format!("{:?}", w.effect);
    let mut ma: BTreeMap<String, u32> = BTreeMap::new();
    let mut mt: BTreeMap<String, u32> = BTreeMap::new();
    for w in &ra {
        ma.insert(key(w), w.id);
    }
    for w in &rt {
        mt.insert(key(w), w.id);
    }
    if ma.keys().collect::<Vec<_>>() != mt.keys().collect::<Vec<_>>() || ra.len() != rt.len() {
        r.violation(
            "malformed/effects-differ-from-twin",
            "after malformed input a call returned different effect requests than on the twin",
            json!({"replay": replay, "attacked": ra.iter().map(key).collect::<Vec<_>>(), "twin": rt.iter().map(key).collect::<Vec<_>>()}),
        );
        return;
    }
    for w in &ra {
        if let Ffi::Op(op) = &w.effect {
            // the registry says whether the entry takes one response or many
            let Some(stream) = a.is_stream(w.id) else {
                r.violation("malformed/request-not-in-registry", "a request was handed out but is not in the registry", replay.clone());
                continue;
            };
            let id_t = mt[&key(w)];
            if outstanding.iter().any(|o| o.id_a == w.id) {
                r.violation("malformed/id-reused-while-outstanding", "an id of an outstanding request was handed out again", replay.clone());
            }
            outstanding.push(Outstanding {
                site: op.site,
                stream,
                id_a: w.id,
                id_t,
            });
        }
    }
}

fn hex(b: &[u8]) -> String {
    let n = b.len().min(160);
    let mut s: String = b[..n].iter().map(|x| format!("{x:02x}")).collect();
    if b.len() > n {
        s.push_str(&format!("...(+{})", b.len() - n));
    }
    s
}
