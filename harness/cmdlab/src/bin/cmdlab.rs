//! Worker for the command-semantics properties (C01-C07, C09): random programs and
//! shell schedules on the real crux code, compared step by step with the reference model.

use std::sync::{Arc, Mutex};
use std::time::Duration;

use cmdlab::ast::*;
use cmdlab::gen::{Gen, GenCfg};
use cmdlab::hosts::*;
use cmdlab::lab::*;
use cmdlab::model::Mode;
use cmdlab::ops::{d, m, AppD, AppM};
use serde_json::{json, Value};
use vcommon::{hash_json, Args, Report, Rng, Watchdog};

#[derive(Clone, Copy, Debug, PartialEq, Eq)]
enum Setup {
    DirectM,
    DirectD,
    StreamM,
    /// stream-polled by a consumer that lags behind (outputs stay queued while actions happen)
    StreamLag,
    /// held directly by a holder that sometimes leaves the events queued and asks is_done() first
    DirectLag,
    EagerM,
    /// the same script program through the legacy capability API, the command API and directly
    LegacyLockstep,
    Nested,
    CoreM,
    CoreD,
    Legacy,
    /// every host that can drop requests, in lock-step
    AllTyped,
    /// every host including the bridges (no drops, no re-resolution)
    AllWithBridges,
    /// typed core twin + the four bridges
    Bridges,
    /// half-migrated app: capability futures awaited inside Command tasks, next to a pure
    /// command-API twin
    Mixed,
}

impl Setup {
    fn name(self) -> &'static str {
        match self {
            Setup::DirectM => "DirectM",
            Setup::DirectD => "DirectD",
            Setup::StreamM => "StreamM",
            Setup::StreamLag => "StreamLag",
            Setup::DirectLag => "DirectLag",
            Setup::EagerM => "EagerM",
            Setup::LegacyLockstep => "LegacyLockstep",
            Setup::Nested => "Nested",
            Setup::CoreM => "CoreM",
            Setup::CoreD => "CoreD",
            Setup::Legacy => "Legacy",
            Setup::AllTyped => "AllTyped",
            Setup::AllWithBridges => "AllWithBridges",
            Setup::Bridges => "Bridges",
            Setup::Mixed => "Mixed",
        }
    }
    fn from_name(s: &str) -> Setup {
        for x in [
            Setup::DirectM,
            Setup::DirectD,
            Setup::StreamM,
            Setup::StreamLag,
            Setup::DirectLag,
            Setup::EagerM,
            Setup::LegacyLockstep,
            Setup::Nested,
            Setup::CoreM,
            Setup::CoreD,
            Setup::Legacy,
            Setup::AllTyped,
            Setup::AllWithBridges,
            Setup::Bridges,
            Setup::Mixed,
        ] {
            if x.name() == s {
                return x;
            }
        }
        panic!("unknown setup {s}")
    }
    fn core_only(self) -> bool {
        matches!(self, Setup::CoreM | Setup::CoreD | Setup::Legacy | Setup::Bridges | Setup::Mixed)
    }
}

/// Wrap a program in neutral wrappers (C05): the behaviour must not change
fn wrap(program: &Cmd, rng: &mut Rng, layers: usize) -> Cmd {
    let mut c = program.clone();
    for _ in 0..layers {
        c = match rng.below(8) {
            0 => Cmd::All(vec![c]),
            1 => Cmd::And(Box::new(Cmd::Done), Box::new(c)),
            2 => Cmd::And(Box::new(c), Box::new(Cmd::Done)),
            3 => Cmd::Then(Box::new(Cmd::Done), Box::new(c)),
            4 => Cmd::Then(Box::new(c), Box::new(Cmd::Done)),
            5 => Cmd::MapEvent(Box::new(c), 0),
            6 => Cmd::MapEffect(Box::new(c), 0),
            _ => Cmd::FromInto(Box::new(c)),
        };
    }
    c
}

fn make_hosts(setup: Setup, program: &Cmd, rng: &mut Rng, max_layers: usize) -> (Vec<HostSlot>, Vec<Mode>) {
    let nested = |rng: &mut Rng, model: usize, stream: bool| {
        let layers = rng.range(1, max_layers as u64) as usize;
        let host: Box<dyn Host> = if stream {
            Box::new(StreamHost::<d::Effect>::new())
        } else {
            Box::new(Direct::<m::Effect>::new())
        };
        HostSlot {
            host,
            model,
            program: Some(wrap(program, rng, layers)),
        }
    };
    match setup {
        Setup::DirectM => (
            vec![HostSlot::new(Box::new(Direct::<m::Effect>::new()), 0)],
            vec![Mode::DIRECT],
        ),
        Setup::DirectD => (
            vec![HostSlot::new(Box::new(Direct::<d::Effect>::new()), 0)],
            vec![Mode::DIRECT],
        ),
        Setup::StreamM => (
            vec![HostSlot::new(Box::new(StreamHost::<m::Effect>::new()), 0)],
            vec![Mode::DIRECT],
        ),
        Setup::StreamLag => (
            vec![HostSlot::new(Box::new(StreamHost::<m::Effect>::lagging()), 0)],
            vec![Mode::DIRECT],
        ),
        Setup::DirectLag => (
            vec![HostSlot::new(Box::new(Direct::<d::Effect>::lagging()), 0)],
            vec![Mode::DIRECT],
        ),
        Setup::EagerM => (
            vec![HostSlot::new(Box::new(EagerHost::<m::Effect>::new()), 0)],
            vec![Mode::DIRECT],
        ),
        Setup::LegacyLockstep => (
            vec![
                HostSlot::new(Box::new(CoreHost::<AppD>::new(true)), 0),
                HostSlot::new(Box::new(CoreHost::<AppD>::new(false)), 1),
                HostSlot::new(Box::new(CoreHost::<AppM>::new(false)), 1),
                HostSlot::new(Box::new(Direct::<d::Effect>::new()), 2),
            ],
            vec![Mode::LEGACY, Mode::CORE, Mode::DIRECT],
        ),
        Setup::Nested => (
            vec![nested(rng, 0, false), nested(rng, 0, true)],
            vec![Mode::NESTED],
        ),
        Setup::CoreM => (
            vec![HostSlot::new(Box::new(CoreHost::<AppM>::new(false)), 0)],
            vec![Mode::CORE],
        ),
        Setup::CoreD => (
            vec![HostSlot::new(Box::new(CoreHost::<AppD>::new(false)), 0)],
            vec![Mode::CORE],
        ),
        Setup::Legacy => (
            vec![HostSlot::new(Box::new(CoreHost::<AppD>::new(true)), 0)],
            vec![Mode::LEGACY],
        ),
        Setup::AllTyped => (
            vec![
                HostSlot::new(Box::new(Direct::<m::Effect>::new()), 0),
                HostSlot::new(Box::new(StreamHost::<d::Effect>::new()), 0),
                HostSlot::new(Box::new(EagerHost::<m::Effect>::new()), 0),
                HostSlot::new(Box::new(StreamHost::<m::Effect>::lagging()), 0),
                HostSlot::new(Box::new(Direct::<d::Effect>::lagging()), 0),
                nested(rng, 1, false),
                nested(rng, 1, true),
                HostSlot::new(Box::new(CoreHost::<AppM>::new(false)), 2),
                HostSlot::new(Box::new(CoreHost::<AppD>::new(false)), 2),
            ],
            vec![Mode::DIRECT, Mode::NESTED, Mode::CORE],
        ),
        Setup::AllWithBridges => (
            vec![
                HostSlot::new(Box::new(Direct::<m::Effect>::new()), 0),
                HostSlot::new(Box::new(StreamHost::<d::Effect>::new()), 0),
                nested(rng, 1, false),
                nested(rng, 1, true),
                HostSlot::new(Box::new(CoreHost::<AppM>::new(false)), 2),
                HostSlot::new(Box::new(CoreHost::<AppD>::new(false)), 2),
                HostSlot::new(Box::new(BridgeHost::<AppM>::new(Wire::Bincode)), 2),
                HostSlot::new(Box::new(BridgeHost::<AppD>::new(Wire::Json)), 2),
            ],
            vec![Mode::DIRECT, Mode::NESTED, Mode::CORE],
        ),
        Setup::Bridges => (
            vec![
                HostSlot::new(Box::new(CoreHost::<AppM>::new(false)), 0),
                HostSlot::new(Box::new(BridgeHost::<AppM>::new(Wire::Bincode)), 0),
                HostSlot::new(Box::new(BridgeHost::<AppM>::new(Wire::Json)), 0),
                HostSlot::new(Box::new(BridgeHost::<AppD>::new(Wire::Bincode)), 0),
                HostSlot::new(Box::new(BridgeHost::<AppD>::new(Wire::Json)), 0),
            ],
            vec![Mode::CORE],
        ),
        Setup::Mixed => (
            vec![
                HostSlot::new(Box::new(CoreHost::<AppD>::mixed()), 0),
                HostSlot::new(Box::new(CoreHost::<AppM>::new(false)), 1),
            ],
            vec![Mode::MIXED, Mode::CORE],
        ),
    }
}

struct Plan {
    /// (setup, weight)
    setups: Vec<(Setup, u32)>,
    gen: GenCfg,
    steps: (u64, u64),
    cases: (u64, u64),
    /// share of cases drawn from the FuturesUnordered class (per mille)
    fu_per_mille: u64,
    max_layers: usize,
    rule: &'static str,
}

fn plan_for(prop: &str, thorough: bool) -> Plan {
    let base = if thorough { GenCfg::thorough() } else { GenCfg::quick() };
    let steps = if thorough { (4, 60) } else { (3, 30) };
    match prop {
        "C01" => Plan {
            setups: vec![(Setup::CoreM, 4), (Setup::CoreD, 4), (Setup::Legacy, 3), (Setup::Mixed, 2)],
            gen: GenCfg { event_then: true, ..base },
            steps,
            cases: (40_000, 20_000_000),
            fu_per_mille: 0,
            max_layers: 1,
            rule: "random program (full AST incl. follow-up programs returned by update for emitted events) x random shell schedule through Core (command API via both effect macros, and legacy capability API); non-trivial = at least 3 core calls, 2 effects and 1 event; distinct = hash of (program, history)",
        },
        "C02" => Plan {
            setups: vec![
                (Setup::DirectM, 3),
                (Setup::CoreD, 2),
                (Setup::Legacy, 2),
                (Setup::Bridges, 3),
                (Setup::Mixed, 2),
            ],
            gen: GenCfg { script_weight: 15, ..base },
            steps: if thorough { (6, 60) } else { (6, 40) },
            cases: (30_000, 8_000_000),
            fu_per_mille: 0,
            max_layers: 1,
            rule: "random programs with many simultaneously outstanding one-shot, stream and notification requests x histories with out-of-order, repeated and late resolutions, on the typed path (Request::resolve, Core::resolve), the legacy futures and the serialized bridges; every resolution carries a unique value so the event identifies the continuation that ran; non-trivial = at least 3 steps, 2 effects, 1 event; distinct = hash of (program, history)",
        },
        "C03" => Plan {
            setups: vec![(Setup::CoreM, 4), (Setup::CoreD, 3), (Setup::Legacy, 3), (Setup::Mixed, 2)],
            gen: GenCfg { event_then: true, script_weight: 30, ..base },
            steps,
            cases: (40_000, 20_000_000),
            fu_per_mille: 0,
            max_layers: 1,
            rule: "script-heavy random programs emitting bursts of events through Core; non-trivial = at least 3 core calls, 2 effects and 1 event; distinct = hash of (program, history)",
        },
        "C04" => Plan {
            setups: vec![(Setup::DirectM, 5), (Setup::DirectD, 3), (Setup::StreamM, 3), (Setup::StreamLag, 2), (Setup::DirectLag, 2), (Setup::EagerM, 2)],
            gen: base,
            steps,
            cases: (60_000, 30_000_000),
            fu_per_mille: 0,
            max_layers: 1,
            rule: "random combinator / builder-chain / async-script expression x random resolve/drop/abort history on the command itself; non-trivial = at least 3 steps, 2 effects and 1 event; distinct = hash of (program, history)",
        },
        "C05" => Plan {
            // (the last two: programs whose emitted events make `update` return follow-up programs,
            // which only a core can host - typed core and the four bridges against the model)
            setups: vec![(Setup::AllTyped, 5), (Setup::AllWithBridges, 5), (Setup::Nested, 2), (Setup::LegacyLockstep, 3), (Setup::Mixed, 2), (Setup::Bridges, 2), (Setup::CoreD, 1)],
            gen: GenCfg { event_then: true, ..base },
            steps,
            cases: (15_000, 3_000_000),
            fu_per_mille: 0,
            max_layers: if thorough { 10 } else { 6 },
            rule: "one program and one history on up to 8 hosts in lock-step (direct, stream-polled, 1-10 neutral wrapper layers, Core via both macros, bincode and JSON bridges; programs with follow-up programs returned by update on the typed core and the four bridges); non-trivial = at least 3 steps, 2 effects and 1 event; distinct = hash of (program, history)",
        },
        "C06" => Plan {
            // (Bridges: late responses for cancelled work arrive under an id, which must not have
            // been given to anybody else in the meantime)
            setups: vec![(Setup::DirectM, 4), (Setup::StreamM, 2), (Setup::StreamLag, 2), (Setup::DirectLag, 2), (Setup::EagerM, 1), (Setup::AllTyped, 3), (Setup::Bridges, 3)],
            gen: GenCfg { script_weight: 20, ..base },
            steps,
            cases: (30_000, 12_000_000),
            fu_per_mille: 0,
            max_layers: 3,
            rule: "random programs with abort handles and task aborts x histories biased to abort/drop/late resolution; non-trivial = at least one abort or drop followed by a later action, 2 effects; distinct = hash of (program, history)",
        },
        "C07" => Plan {
            setups: vec![(Setup::DirectM, 5), (Setup::DirectD, 2), (Setup::StreamM, 3), (Setup::StreamLag, 1), (Setup::DirectLag, 1), (Setup::EagerM, 1)],
            gen: GenCfg { script_weight: 30, ..base },
            steps,
            cases: (60_000, 30_000_000),
            fu_per_mille: 60,
            max_layers: 1,
            rule: "script-heavy random programs (requests, streams, join, select, join handles, self-waking futures) x resolve-some/drop-others histories ending in resolve-or-drop of everything; is_done compared after every step; non-trivial = at least 3 steps and 2 effects with is_done compared at least twice; distinct = hash of (program, history)",
        },
        "C09" => Plan {
            setups: vec![(Setup::Bridges, 1)],
            gen: GenCfg { event_then: true, ..base },
            steps,
            cases: (15_000, 3_000_000),
            fu_per_mille: 0,
            max_layers: 1,
            rule: "one program and one history (out-of-order responses) on a typed Core twin and four bridges (bincode/JSON x attribute/derive effect macro) in lock-step; non-trivial = at least 3 calls, 2 effects and 1 event; distinct = hash of (program, history)",
        },
        other => panic!("cmdlab does not serve {other}"),
    }
}

fn record_findings(
    report: &mut Report,
    setup: Setup,
    program: &Cmd,
    hosts: &[HostSlot],
    outcome: &CaseOutcome,
    seed_state: [u64; 4],
    foreign_wakers: bool,
) {
    let wrapped: Vec<Option<Cmd>> = hosts.iter().map(|h| h.program.clone()).collect();
    for f in &outcome.findings {
        report.violation(
            &f.signature,
            &f.what,
            json!({
                "lane": "cmdlab",
                "setup": setup.name(),
                "host": f.host,
                "step": f.step,
                "detail": f.detail,
                "program": program,
                "actions": outcome.actions,
                "pre_abort": outcome.pre_abort,
                "wrapped": wrapped,
                "rng_state": seed_state,
                "foreign_wakers": foreign_wakers,
            }),
        );
    }
}

fn main() {
    let args = Args::parse();
    if args.prop == "noop" {
        return;
    }
    vcommon::install_panic_hook();
    let report = Arc::new(Mutex::new(Report::new(&args.prop)));
    let wd = Watchdog::start(report.clone(), args.out.clone(), Duration::from_secs(120));

    if let Some(path) = &args.replay {
        replay(&args, path, &report);
        report.lock().unwrap().finish(&args);
        return;
    }

    let plan = plan_for(&args.prop, args.thorough());
    let n = args.share(plan.cases.0, plan.cases.1);
    let seed = args.worker_seed();
    let weights: Vec<u32> = plan.setups.iter().map(|s| s.1).collect();
    for case_no in 0..n {
        let mut rng = Rng::derive(seed, case_no, 0);
        let state = rng.state();
        let mut setup = plan.setups[rng.weighted(&weights)].0;
        if let Some(forced) = args.extra.get("setup") {
            // development aid: explore one setup only
            setup = Setup::from_name(forced);
        }
        let mut gen_cfg = plan.gen.clone();
        if setup == Setup::Mixed {
            gen_cfg.script_weight = gen_cfg.script_weight.max(30);
        }
        gen_cfg.legacy = setup == Setup::Legacy || setup == Setup::LegacyLockstep;
        if !setup.core_only() {
            gen_cfg.event_then = false;
        }
        let fu_case = plan.fu_per_mille > 0 && rng.below(1000) < plan.fu_per_mille;
        let program = {
            let mut g = Gen::new(&mut rng, gen_cfg.clone());
            if fu_case {
                g.fu_program()
            } else {
                g.program()
            }
        };
        let (mut hosts, modes) = make_hosts(setup, &program, &mut rng, plan.max_layers);
        let steps = rng.range(plan.steps.0, plan.steps.1) as usize;
        let mut cfg = RunCfg::default_for(steps);
        if args.prop == "C06" {
            cfg.noop = true;
        }
        if setup == Setup::Legacy || setup == Setup::LegacyLockstep {
            cfg.abort = false;
        }
        if setup == Setup::LegacyLockstep {
            // the legacy API has no cancellation: histories without drops keep the hosts comparable
            cfg.drop = false;
            cfg.final_cleanup = false;
        }
        // one case in five hammers streams (many items on one stream), one in six extends
        // the command from outside after it has started
        cfg.stream_bias = rng.chance(1, 5);
        if cfg.stream_bias {
            cfg.max_steps = cfg.max_steps.max(24);
        }
        if matches!(setup, Setup::DirectM | Setup::DirectD | Setup::StreamM | Setup::StreamLag | Setup::DirectLag) && rng.chance(1, 6) {
            let k = rng.range(1, 2);
            for i in 0..k {
                let mut gc = GenCfg::quick();
                gc.max_nodes = 4;
                gc.abortable = false;
                let mut g = Gen::new(&mut rng, gc);
                g.offset_ids(50_000 + 1000 * i as u32);
                cfg.extend_pool.push(g.program());
            }
        }
        // one case in five: the request / stream futures of script tasks are polled through the
        // foreign-waker adapter (a fresh waker per poll, wake-ups through older ones ignored)
        let foreign_wakers = Rng::derive(seed, case_no, 4242).chance(1, 5);
        cmdlab::probe::PROBE_ON.store(foreign_wakers, std::sync::atomic::Ordering::SeqCst);
        wd.begin(|| {
            json!({"lane": "cmdlab", "setup": setup.name(), "program": program, "rng_state": state, "foreign_wakers": foreign_wakers, "note": "actions are generated while running; re-run with this rng_state"}).to_string()
        });
        let outcome = vcommon::trap(|| run_case(&program, &mut hosts, &modes, &mut rng, &cfg, None));
        wd.end();
        cmdlab::probe::PROBE_ON.store(false, std::sync::atomic::Ordering::SeqCst);
        let mut r = report.lock().unwrap();
        r.eval();
        match outcome {
            Ok(outcome) => {
                let s = &outcome.stats;
                r.count("steps", s.steps as u64);
                r.count("effects_observed", s.effects as u64);
                r.count("events_observed", s.events as u64);
                r.count("resolutions", s.resolves as u64);
                r.count("late_resolutions", s.late_resolves as u64);
                r.count("repeated_resolutions", s.reresolves as u64);
                r.count("notification_resolutions", s.never_resolves as u64);
                r.count("stream_items", s.stream_items as u64);
                r.count("drops", s.drops as u64);
                r.count("aborts", s.aborts as u64);
                r.count("noop_probes", s.noops as u64);
                r.count("external_extensions", s.extends as u64);
                r.count("batched_actions_before_one_run", s.batches as u64);
                r.count("out_of_issue_order_resolutions", s.out_of_order as u64);
                r.count("is_done_compared", s.done_checked as u64);
                r.count("is_done_not_compared_cancellation_sweep_pending", s.done_unknown as u64);
                r.count("held_value_checks", s.holds_checked as u64);
                r.count("host_runs", hosts.len() as u64);
                if foreign_wakers {
                    r.count("cases_with_foreign_wakers", 1);
                }
                r.count("steps_with_outputs_left_queued_by_a_lagging_consumer", s.lagged_steps as u64);
                if outcome.pre_abort.is_some() {
                    r.count("aborts_before_first_poll", 1);
                }
                if s.fu_stuck_seen {
                    r.count("futures_unordered_stuck_cases", 1);
                }
                r.max("max_outstanding_requests", s.max_outstanding as u64);
                r.max("max_program_nodes", program.size() as u64);
                r.max("max_program_depth", program.depth() as u64);
                r.set("setups", setup.name());
                for h in hosts.iter() {
                    r.set("hosts", h.host.name());
                }
                let mut cons = vec![];
                program.constructors(&mut cons);
                for c in cons {
                    r.set("constructors", c);
                }
                let nontrivial = match args.prop.as_str() {
                    "C06" => (s.aborts + s.drops) >= 1 && s.steps >= 3 && s.effects >= 2,
                    "C07" => s.steps >= 3 && s.effects >= 2 && s.done_checked >= 2,
                    _ => s.steps >= 3 && s.effects >= 2 && s.events >= 1,
                };
                if nontrivial {
                    r.nontrivial(hash_json(&(&program, &outcome.actions, outcome.pre_abort)));
                }
                if nontrivial {
                    r.sample(|| json!({"setup": setup.name(), "program": program, "actions": outcome.actions}));
                }
                record_findings(&mut r, setup, &program, &hosts, &outcome, state, foreign_wakers);
            }
            Err(panic) => {
                let site = vcommon::panic_site(&panic);
                r.violation(
                    &format!("panic/{site}"),
                    &format!("panic while running a case: {panic}"),
                    json!({"lane": "cmdlab", "setup": setup.name(), "program": program, "rng_state": state, "panic": panic}),
                );
            }
        }
    }
    if args.prop == "C02" || args.prop == "C09" {
        // wide cases: more than a thousand requests outstanding at once on the serialized
        // bridges (registry growth), answered out of order until few are left, with new
        // requests registered all the way (every 23rd task asks again after its answer)
        let n = args.share_scaled("wide", 8, 640, plan.cases.0, plan.cases.1);
        for case_no in 0..n {
            let mut rng = Rng::derive(seed, case_no, 909);
            let state = rng.state();
            let width = rng.range(1100, if args.thorough() { 4200 } else { 2400 }) as usize;
            let mut items = vec![];
            for i in 0..width {
                let site = 100_000 + i as u32;
                let mut instrs = vec![Instr::Req { site, arg: None }, Instr::Emit { tag: site, reg: Some(0) }];
                if i % 23 == 0 {
                    instrs.push(Instr::Req { site: site + 1_000_000, arg: None });
                    instrs.push(Instr::Emit { tag: site + 1_000_000, reg: Some(1) });
                }
                items.push(if i % 7 == 3 {
                    Cmd::Chain(Chain { head: Head::Request(site), stages: vec![] }, site)
                } else {
                    Cmd::Async(Script { instrs })
                });
            }
            let program = Cmd::All(items);
            let setup = Setup::Bridges;
            let (mut hosts, modes) = make_hosts(setup, &program, &mut rng, 1);
            let mut cfg = RunCfg::default_for(width + width / 3);
            cfg.noop = false;
            cfg.abort = false;
            wd.begin(|| json!({"lane": "cmdlab-wide", "width": width, "rng_state": state}).to_string());
            let outcome = vcommon::trap(|| run_case(&program, &mut hosts, &modes, &mut rng, &cfg, None));
            wd.end();
            let mut r = report.lock().unwrap();
            r.eval();
            r.count("wide_cases", 1);
            match outcome {
                Ok(outcome) => {
                    let s = &outcome.stats;
                    r.count("steps", s.steps as u64);
                    r.count("effects_observed", s.effects as u64);
                    r.count("events_observed", s.events as u64);
                    r.count("resolutions", s.resolves as u64);
                    r.count("out_of_issue_order_resolutions", s.out_of_order as u64);
                    r.max("max_outstanding_requests", s.max_outstanding as u64);
                    r.nontrivial(hash_json(&(width, state)));
                    record_findings(&mut r, setup, &program, &hosts, &outcome, state, false);
                }
                Err(panic) => {
                    let site = vcommon::panic_site(&panic);
                    r.violation(
                        &format!("panic/{site}"),
                        &format!("panic while running a wide case: {panic}"),
                        json!({"lane": "cmdlab-wide", "width": width, "rng_state": state, "panic": panic}),
                    );
                }
            }
        }
    }
    if args.prop == "C01" || args.prop == "C03" {
        // long cases: one command that produces hundreds of outputs, in one burst or over a long
        // life (a subscription), through every kind of core host. Whatever bounds an
        // implementation has on outputs per pass or per command shows here.
        let n = args.share_scaled("long", 24, 4_000, plan.cases.0, plan.cases.1);
        for case_no in 0..n {
            let mut rng = Rng::derive(seed, case_no, 1313);
            let state = rng.state();
            let mut instrs = vec![];
            let mut tag = 1u32;
            let mut regs = 0usize;
            // one case in six: a backlog - the consumer of a subscription waits for the answer to a
            // follow-up request while the shell delivers hundreds of further items, then gets its
            // answer and works the backlog off (whatever bounds a stream's buffer shows here, as a
            // call that never returns or as items that are lost)
            let backlog = case_no % 6 == 5;
            let mut backlog_actions: Vec<Action> = vec![];
            let shape = if backlog { 3 } else { rng.below(3) };
            if backlog {
                let k = rng.range(130, 330) as u32;
                instrs.push(Instr::Open { site: 1 });
                instrs.push(Instr::Next { stream: 0 });
                instrs.push(Instr::Emit { tag, reg: Some(0) });
                instrs.push(Instr::Req { site: 100, arg: None });
                regs = 2;
                for _ in 0..k {
                    instrs.push(Instr::Next { stream: 0 });
                    regs += 1;
                    tag += 1;
                    instrs.push(Instr::Emit { tag, reg: Some(regs - 1) });
                }
                instrs.push(Instr::Req { site: 2, arg: None });
                let mut val = 7_000u64;
                for _ in 0..=k {
                    val += 1;
                    backlog_actions.push(Action::Resolve { site: 1, arg: 0, val });
                }
                backlog_actions.push(Action::Resolve { site: 100, arg: 0, val: 6_999 });
                backlog_actions.push(Action::Resolve { site: 1, arg: 0, val: 9_999 });
                backlog_actions.push(Action::Resolve { site: 2, arg: 0, val: 6_998 });
            } else if shape == 0 {
                // one burst after one request
                instrs.push(Instr::Req { site: 1, arg: None });
                regs += 1;
                for _ in 0..rng.range(120, 420) {
                    instrs.push(Instr::Emit { tag, reg: Some(0) });
                    tag += 1;
                    if rng.chance(1, 20) {
                        instrs.push(Instr::Notify { site: 5000 + tag });
                    }
                }
                instrs.push(Instr::Req { site: 2, arg: None });
            } else {
                // a subscription: per item a few events, now and then a request or a notification
                instrs.push(Instr::Open { site: 1 });
                for item in 0..rng.range(45, 140) {
                    instrs.push(Instr::Next { stream: 0 });
                    regs += 1;
                    for _ in 0..rng.range(1, 3) {
                        instrs.push(Instr::Emit { tag, reg: Some(regs - 1) });
                        tag += 1;
                    }
                    if shape == 2 && item % 9 == 4 {
                        instrs.push(Instr::Req { site: 100 + item as u32, arg: None });
                        regs += 1;
                    }
                    if rng.chance(1, 12) {
                        instrs.push(Instr::Notify { site: 5000 + tag });
                    }
                }
            }
            let script = Cmd::Async(Script { instrs });
            let program = match rng.below(4) {
                0 => script,
                1 => Cmd::MapEvent(Box::new(script), 0),
                2 => Cmd::And(Box::new(script), Box::new(Cmd::Notify(9))),
                _ => Cmd::Then(Box::new(Cmd::Done), Box::new(script)),
            };
            let mut setup = *rng.pick(&[Setup::CoreM, Setup::CoreD, Setup::Legacy, Setup::Mixed, Setup::Bridges]);
            if backlog {
                // capability-API and command-API subscriptions in turn
                setup = [Setup::Legacy, Setup::CoreM, Setup::Mixed, Setup::Bridges][((case_no / 6 + args.worker) % 4) as usize];
            }
            let program = if setup == Setup::Legacy { match program { Cmd::Async(_) => program, Cmd::MapEvent(c, _) | Cmd::Then(_, c) => *c, Cmd::And(c, _) => *c, other => other } } else { program };
            let (mut hosts, modes) = make_hosts(setup, &program, &mut rng, 1);
            let mut cfg = RunCfg::default_for(400);
            cfg.noop = false;
            cfg.abort = false;
            cfg.drop = false;
            cfg.reresolve = false;
            cfg.stream_bias = true;
            wd.begin(|| json!({"lane": "cmdlab-long", "setup": setup.name(), "program": program, "rng_state": state}).to_string());
            let outcome = vcommon::trap(|| run_case(&program, &mut hosts, &modes, &mut rng, &cfg, if backlog { Some((&backlog_actions, None)) } else { None }));
            wd.end();
            let mut r = report.lock().unwrap();
            r.eval();
            r.count("long_cases", 1);
            if backlog {
                r.count("backlog_cases", 1);
                r.max("max_items_waiting_for_one_consumer", backlog_actions.len() as u64 - 3);
            }
            match outcome {
                Ok(outcome) => {
                    let s = &outcome.stats;
                    r.count("steps", s.steps as u64);
                    r.count("effects_observed", s.effects as u64);
                    r.count("events_observed", s.events as u64);
                    r.count("resolutions", s.resolves as u64);
                    r.count("stream_items", s.stream_items as u64);
                    r.max("max_outputs_of_one_command", (s.effects + s.events) as u64);
                    r.set("setups", setup.name());
                    r.nontrivial(hash_json(&(&program, &outcome.actions)));
                    record_findings(&mut r, setup, &program, &hosts, &outcome, state, false);
                }
                Err(panic) => {
                    let site = vcommon::panic_site(&panic);
                    r.violation(
                        &format!("panic/{site}"),
                        &format!("panic while running a long case: {panic}"),
                        json!({"lane": "cmdlab-long", "setup": setup.name(), "program": program, "rng_state": state, "panic": panic}),
                    );
                }
            }
        }
    }
    if ["C01", "C03", "C05", "C06"].contains(&args.prop.as_str()) {
        // model-free conservation cases: a task aborts a command in the middle of a pass (see free.rs)
        let n = args.share_scaled("free", 6_000, 3_000_000, plan.cases.0, plan.cases.1);
        let core_only = args.prop == "C01" || args.prop == "C03";
        for case_no in 0..n {
            let mut rng = Rng::derive(seed, case_no, 777);
            let state = rng.state();
            let program = cmdlab::free::gen_program(&mut rng);
            let which = if core_only { rng.range(5, 8) } else { rng.below(9) };
            let mut host: Box<dyn Host> = match which {
                0 => Box::new(Direct::<m::Effect>::new()),
                1 => Box::new(Direct::<d::Effect>::lagging()),
                2 => Box::new(StreamHost::<d::Effect>::new()),
                3 => Box::new(StreamHost::<m::Effect>::lagging()),
                4 => Box::new(EagerHost::<m::Effect>::new()),
                5 => Box::new(CoreHost::<AppM>::new(false)),
                6 => Box::new(CoreHost::<AppD>::new(false)),
                7 => Box::new(BridgeHost::<AppM>::new(Wire::Bincode)),
                _ => Box::new(BridgeHost::<AppD>::new(Wire::Json)),
            };
            let host_name = host.name();
            wd.begin(|| json!({"lane": "cmdlab-free", "host": host_name, "program": program, "rng_state": state}).to_string());
            let steps = rng.range(3, 20) as usize;
            let outcome = vcommon::trap(|| cmdlab::free::run(&program, host.as_mut(), 0, &mut rng, steps, None));
            wd.end();
            let mut r = report.lock().unwrap();
            r.eval();
            r.count("conservation_cases", 1);
            r.set("hosts", host_name);
            match outcome {
                Ok(o) => {
                    r.count("requests_made_in_conservation_cases", o.requests_made as u64);
                    r.count("events_emitted_in_conservation_cases", o.events_made as u64);
                    r.count("effects_observed", o.requests_made as u64);
                    r.count("events_observed", o.events_made as u64);
                    r.count("steps", o.actions.len() as u64 + 1);
                    if o.findings.is_empty() && o.requests_made + o.events_made >= 3 {
                        r.nontrivial(hash_json(&(&program, &o.actions, host_name)));
                    }
                    for (sig, what, detail) in o.findings {
                        r.violation(&sig, &what, json!({"lane": "cmdlab-free", "host": host_name, "program": program, "actions": o.actions, "detail": detail, "rng_state": state}));
                    }
                }
                Err(panic) => {
                    let site = vcommon::panic_site(&panic);
                    r.violation(
                        &format!("panic/{site}"),
                        &format!("panic while running a conservation case: {panic}"),
                        json!({"lane": "cmdlab-free", "host": host_name, "program": program, "rng_state": state, "panic": panic}),
                    );
                }
            }
        }
    }
    if args.prop == "C02" {
        // look-alike workload: equal operations, only the request identity tells them apart
        let n = args.share_scaled("lookalike", 4_000, 2_000_000, plan.cases.0, plan.cases.1);
        for case_no in 0..n {
            let mut rng = Rng::derive(seed, case_no, 202);
            let paths = cmdlab::lookalike::Path::all();
            let path = &paths[rng.usize_below(paths.len())];
            let n_once = rng.range(2, 24) as usize;
            let n_stream = rng.range(0, 4) as usize;
            let items = rng.range(1, 4) as usize;
            wd.begin(|| json!({"lane": "cmdlab-lookalike", "path": path.name(), "n_once": n_once, "n_stream": n_stream, "items": items, "rng_state": rng.state()}).to_string());
            let state = rng.state();
            let res = vcommon::trap(|| cmdlab::lookalike::run(path, &mut rng, n_once, n_stream, items));
            wd.end();
            let mut r = report.lock().unwrap();
            r.eval();
            r.count("lookalike_cases", 1);
            r.set("lookalike_paths", path.name());
            let replay = json!({"lane": "cmdlab-lookalike", "path": path.name(), "n_once": n_once, "n_stream": n_stream, "items": items, "rng_state": state});
            match res {
                Ok(o) => {
                    r.count("lookalike_resolutions", o.resolutions as u64);
                    r.count("lookalike_rejected_repeats", o.rejected_repeats as u64);
                    r.count("lookalike_stream_items", o.stream_items as u64);
                    r.max("max_lookalike_requests_outstanding", (n_once + n_stream) as u64);
                    if o.problems.is_empty() {
                        r.nontrivial(hash_json(&replay));
                    }
                    for (sig, detail) in o.problems {
                        r.violation(&sig, &format!("{}: {detail}", sig.replace(['/', '-'], " ")), replay.clone());
                    }
                }
                Err(p) => r.violation(&format!("panic/{}", vcommon::panic_site(&p)), &format!("panic in a look-alike case: {p}"), replay),
            }
        }
    }
    let mut r = report.lock().unwrap();
    let _ = plan.rule;
    r.count("events_over_1MiB_sent_over_a_bridge", cmdlab::hosts::LARGE_EVENTS.load(std::sync::atomic::Ordering::Relaxed));
    r.finish(&args);
}

fn replay(args: &Args, path: &str, report: &Arc<Mutex<Report>>) {
    let v: Value = serde_json::from_str(&std::fs::read_to_string(path).expect("replay file")).expect("json");
    let rep = v.get("replay").unwrap_or(&v);
    if rep["lane"].as_str() == Some("cmdlab-free") {
        let program: Cmd = serde_json::from_value(rep["program"].clone()).expect("program");
        let actions: Vec<Action> = serde_json::from_value(rep["actions"].clone()).unwrap_or_default();
        let mut host: Box<dyn Host> = match rep["host"].as_str().unwrap_or("") {
            "Direct" => Box::new(Direct::<m::Effect>::new()),
            "DirectLag" => Box::new(Direct::<d::Effect>::lagging()),
            "StreamHost" => Box::new(StreamHost::<d::Effect>::new()),
            "StreamLagHost" => Box::new(StreamHost::<m::Effect>::lagging()),
            "EagerHost" => Box::new(EagerHost::<m::Effect>::new()),
            "CoreCmd(derive effect)" => Box::new(CoreHost::<AppD>::new(false)),
            "BridgeBincode" => Box::new(BridgeHost::<AppM>::new(Wire::Bincode)),
            "BridgeJson" => Box::new(BridgeHost::<AppD>::new(Wire::Json)),
            _ => Box::new(CoreHost::<AppM>::new(false)),
        };
        let o = cmdlab::free::run(&program, host.as_mut(), 0, &mut Rng::new(1), actions.len(), Some(&actions));
        let mut r = report.lock().unwrap();
        r.eval();
        for (sig, what, detail) in o.findings {
            println!("finding {sig}: {what}\n  {detail}");
            r.violation(&sig, &what, json!({"lane": "cmdlab-free", "host": rep["host"], "program": program, "actions": actions, "detail": detail}));
        }
        return;
    }
    let setup = Setup::from_name(rep["setup"].as_str().expect("setup"));
    let program: Cmd = serde_json::from_value(rep["program"].clone()).expect("program");
    let actions: Vec<Action> = serde_json::from_value(rep["actions"].clone()).unwrap_or_default();
    let pre_abort: Option<u32> = serde_json::from_value(rep["pre_abort"].clone()).unwrap_or(None);
    let mut rng = Rng::new(args.seed);
    let (mut hosts, modes) = make_hosts(setup, &program, &mut rng, 3);
    if let Ok(wrapped) = serde_json::from_value::<Vec<Option<Cmd>>>(rep["wrapped"].clone()) {
        for (h, w) in hosts.iter_mut().zip(wrapped) {
            h.program = w;
        }
    }
    let cfg = RunCfg::default_for(actions.len());
    let foreign_wakers = rep["foreign_wakers"].as_bool().unwrap_or(false);
    cmdlab::probe::PROBE_ON.store(foreign_wakers, std::sync::atomic::Ordering::SeqCst);
    let outcome = run_case(&program, &mut hosts, &modes, &mut rng, &cfg, Some((&actions, pre_abort)));
    let mut r = report.lock().unwrap();
    r.eval();
    for f in &outcome.findings {
        println!("finding {} at step {} on {}: {}", f.signature, f.step, f.host, f.what);
        println!("  {}", f.detail);
    }
    record_findings(&mut r, setup, &program, &hosts, &outcome, [0; 4], foreign_wakers);
}
