//! C02 look-alike workload: many simultaneously outstanding requests whose *operations are
//! equal*, so that only the identity of the request object / bridge id tells them apart.
//! No model: a value ledger. Every resolution carries a unique value; the event it produces
//! names the continuation (tag) that ran. The request -> continuation relation must be a
//! bijection for one-shot requests, stream items must come out of the stream's own
//! continuation in order, repeated resolutions of a one-shot must be rejected and have no effect.

use std::collections::HashMap;

use bincode::Options;
use crux_core::bridge::{Bridge, BridgeWithSerializer};
use crux_core::{Command, Core, Request};
use serde::Deserialize;
use vcommon::Rng;

use crate::ast::*;
use crate::build::build;
use crate::ops::*;

/// one program: `n_once` tasks each awaiting a one-shot request with the SAME operation and
/// `n_stream` tasks each reading `items` items from a stream request with the SAME operation
pub fn program(n_once: usize, n_stream: usize, items: usize) -> Cmd {
    const SITE_ONCE: u32 = 7;
    const SITE_STREAM: u32 = 8;
    let mut parts = vec![];
    for i in 0..n_once {
        parts.push(Cmd::Async(Script {
            instrs: vec![
                Instr::Req {
                    site: SITE_ONCE,
                    arg: None,
                },
                Instr::Emit {
                    tag: 100 + i as u32,
                    reg: Some(0),
                },
            ],
        }));
    }
    for j in 0..n_stream {
        let mut instrs = vec![Instr::Open { site: SITE_STREAM }];
        for k in 0..items {
            instrs.push(Instr::Next { stream: 0 });
            instrs.push(Instr::Emit {
                tag: 1000 + j as u32,
                reg: Some(k),
            });
        }
        parts.push(Cmd::Async(Script { instrs }));
    }
    Cmd::All(parts)
}

pub enum Path {
    Direct,
    CoreAttr,
    CoreDerive,
    Legacy,
    BridgeBincode,
    BridgeJson,
}

impl Path {
    pub fn name(&self) -> &'static str {
        match self {
            Path::Direct => "Request::resolve (command held directly)",
            Path::CoreAttr => "Core::resolve (attribute macro)",
            Path::CoreDerive => "Core::resolve (derive macro)",
            Path::Legacy => "Core::resolve (legacy capability futures)",
            Path::BridgeBincode => "Bridge::handle_response (bincode)",
            Path::BridgeJson => "BridgeWithSerializer::handle_response (JSON)",
        }
    }
    pub fn all() -> Vec<Path> {
        vec![
            Path::Direct,
            Path::CoreAttr,
            Path::CoreDerive,
            Path::Legacy,
            Path::BridgeBincode,
            Path::BridgeJson,
        ]
    }
}

enum Sut {
    Direct(Command<m::Effect, Event>),
    CoreM(Core<AppM>),
    CoreD(Core<AppD>),
    Bin(Bridge<AppM>),
    Json(BridgeWithSerializer<AppD>),
}

enum Handle {
    Typed(Request<Op>),
    Id(u32),
}

#[derive(Deserialize)]
enum Ffi {
    #[serde(alias = "OpCap")]
    Op(Op),
    #[serde(alias = "SigCap")]
    Sig(Sig),
}

#[derive(Deserialize)]
struct WireReq {
    id: u32,
    effect: Ffi,
}

fn opts() -> impl bincode::Options + Copy {
    bincode::DefaultOptions::new()
        .with_fixint_encoding()
        .allow_trailing_bytes()
}

pub struct Outcome {
    pub resolutions: usize,
    pub rejected_repeats: usize,
    pub stream_items: usize,
    pub problems: Vec<(String, String)>,
}

struct Slot {
    handle: Handle,
    kind: u8,
    /// tag of the continuation this request turned out to belong to
    tag: Option<u32>,
    resolved: bool,
    delivered: Vec<u64>,
}

fn take_effects<Ef: LabEffect>(effects: Vec<Ef>, slots: &mut Vec<Slot>) {
    for e in effects {
        if let Split::Op(r) = e.split() {
            let kind = r.operation.kind;
            slots.push(Slot {
                handle: Handle::Typed(r),
                kind,
                tag: None,
                resolved: false,
                delivered: vec![],
            });
        }
    }
}

fn take_wire(reqs: Vec<WireReq>, slots: &mut Vec<Slot>) {
    for r in reqs {
        if let Ffi::Op(op) = r.effect {
            slots.push(Slot {
                handle: Handle::Id(r.id),
                kind: op.kind,
                tag: None,
                resolved: false,
                delivered: vec![],
            });
        } else if let Ffi::Sig(_) = r.effect {
        }
    }
}

pub fn run(path: &Path, rng: &mut Rng, n_once: usize, n_stream: usize, items: usize) -> Outcome {
    reset_registries();
    let prog = program(n_once, n_stream, items);
    let mut slots: Vec<Slot> = vec![];
    let mut out = Outcome {
        resolutions: 0,
        rejected_repeats: 0,
        stream_items: 0,
        problems: vec![],
    };
    let mut seen_log = 0usize;
    // ---- start ------------------------------------------------------------------------------
    let mut sut = match path {
        Path::Direct => {
            let mut c = build::<m::Effect>(&prog);
            let effects: Vec<m::Effect> = c.effects().collect();
            take_effects(effects, &mut slots);
            Sut::Direct(c)
        }
        Path::CoreAttr => {
            let core: Core<AppM> = Core::new();
            take_effects(core.process_event(Event::Start(Box::new(prog.clone()))), &mut slots);
            Sut::CoreM(core)
        }
        Path::CoreDerive | Path::Legacy => {
            let core: Core<AppD> = Core::new();
            let ev = if matches!(path, Path::Legacy) {
                Event::StartLegacy(Box::new(prog.clone()))
            } else {
                Event::Start(Box::new(prog.clone()))
            };
            take_effects(core.process_event(ev), &mut slots);
            Sut::CoreD(core)
        }
        Path::BridgeBincode => {
            let b: Bridge<AppM> = Bridge::new(Core::new());
            let bytes = opts().serialize(&Event::Start(Box::new(prog.clone()))).unwrap();
            let o = b.process_event(&bytes).expect("start");
            take_wire(opts().deserialize(&o).expect("effects decode"), &mut slots);
            Sut::Bin(b)
        }
        Path::BridgeJson => {
            let b: BridgeWithSerializer<AppD> = BridgeWithSerializer::new(Core::new());
            let bytes = serde_json::to_vec(&Event::Start(Box::new(prog.clone()))).unwrap();
            let mut o = vec![];
            b.process_event(&mut serde_json::Deserializer::from_slice(&bytes), &mut serde_json::Serializer::new(&mut o))
                .expect("start");
            take_wire(serde_json::from_slice(&o).expect("effects decode"), &mut slots);
            Sut::Json(b)
        }
    };
    if slots.len() != n_once + n_stream {
        out.problems.push((
            "lookalike/wrong-number-of-requests".into(),
            format!("{} requests handed over, {} expected", slots.len(), n_once + n_stream),
        ));
        return out;
    }
    let over_bridge = matches!(path, Path::BridgeBincode | Path::BridgeJson);
    let mut tag_owner: HashMap<u32, usize> = HashMap::new();
    let mut next_val = 5000u64;
    let steps = (n_once + n_stream * items) * 2 + 6;
    for _ in 0..steps {
        // pick any request: unresolved ones mostly, sometimes an already answered one-shot
        let cands: Vec<usize> = (0..slots.len())
            .filter(|i| {
                let s = &slots[*i];
                if s.kind == KIND_ONCE {
                    !s.resolved || (!over_bridge && rng.chance(1, 6))
                } else {
                    s.delivered.len() < items + 1
                }
            })
            .collect();
        if cands.is_empty() {
            break;
        }
        let i = *rng.pick(&cands);
        next_val += 1;
        let val = next_val;
        let repeat = slots[i].kind == KIND_ONCE && slots[i].resolved;
        // ---- resolve ---------------------------------------------------------------------------
        let ok = match (&mut sut, &mut slots[i].handle) {
            (Sut::Direct(_), Handle::Typed(r)) => r.resolve(Val(val)).is_ok(),
            (Sut::CoreM(c), Handle::Typed(r)) => c.resolve(r, Val(val)).map(|e| assert!(e.is_empty())).is_ok(),
            (Sut::CoreD(c), Handle::Typed(r)) => c.resolve(r, Val(val)).map(|e| assert!(e.is_empty())).is_ok(),
            (Sut::Bin(b), Handle::Id(id)) => b.handle_response(*id, &opts().serialize(&val).unwrap()).is_ok(),
            (Sut::Json(b), Handle::Id(id)) => {
                let bytes = serde_json::to_vec(&val).unwrap();
                let mut o = vec![];
                b.handle_response(*id, &mut serde_json::Deserializer::from_slice(&bytes), &mut serde_json::Serializer::new(&mut o))
                    .is_ok()
            }
            _ => unreachable!(),
        };
        out.resolutions += 1;
        // ---- what happened ---------------------------------------------------------------------
        let new_events: Vec<(u32, u64)> = match &mut sut {
            Sut::Direct(c) => c
                .events()
                .filter_map(|e| match e {
                    Event::Out { tag, val, .. } => Some((tag, val)),
                    _ => None,
                })
                .collect(),
            Sut::CoreM(c) => {
                let log = c.view().log;
                let v = log[seen_log..].iter().map(|l| (l.tag, l.val)).collect();
                seen_log = log.len();
                v
            }
            Sut::CoreD(c) => {
                let log = c.view().log;
                let v = log[seen_log..].iter().map(|l| (l.tag, l.val)).collect();
                seen_log = log.len();
                v
            }
            Sut::Bin(b) => {
                let v: ViewModel = opts().deserialize(&b.view().unwrap()).unwrap();
                let r = v.log[seen_log..].iter().map(|l| (l.tag, l.val)).collect();
                seen_log = v.log.len();
                r
            }
            Sut::Json(b) => {
                let mut o = vec![];
                b.view(&mut serde_json::Serializer::new(&mut o)).unwrap();
                let v: ViewModel = serde_json::from_slice(&o).unwrap();
                let r = v.log[seen_log..].iter().map(|l| (l.tag, l.val)).collect();
                seen_log = v.log.len();
                r
            }
        };
        let s = &mut slots[i];
        if repeat {
            if ok {
                out.problems.push(("lookalike/second-resolution-of-a-one-shot-accepted".into(), String::new()));
            } else {
                out.rejected_repeats += 1;
            }
            if !new_events.is_empty() {
                out.problems.push((
                    "lookalike/second-resolution-had-an-effect".into(),
                    format!("{new_events:?}"),
                ));
            }
            continue;
        }
        if s.kind == KIND_ONCE {
            s.resolved = true;
            if !ok {
                out.problems.push(("lookalike/first-resolution-rejected".into(), String::new()));
                continue;
            }
            match &new_events[..] {
                [(tag, v)] => {
                    if *v != val {
                        out.problems.push(("lookalike/value-changed-or-misrouted".into(), format!("sent {val}, continuation {tag} received {v}")));
                    }
                    if !(100..1000).contains(tag) {
                        out.problems.push(("lookalike/one-shot-value-reached-a-stream-consumer".into(), format!("tag {tag}")));
                    }
                    if let Some(other) = tag_owner.insert(*tag, i) {
                        if other != i {
                            out.problems.push(("lookalike/two-requests-resumed-the-same-continuation".into(), format!("tag {tag}: requests {other} and {i}")));
                        }
                    }
                    s.tag = Some(*tag);
                }
                other => out.problems.push((
                    "lookalike/not-exactly-one-continuation-ran".into(),
                    format!("resolution with {val} produced {other:?}"),
                )),
            }
        } else {
            // stream: the first `items` are consumed, one more is sent after the consumer has ended
            let nth = s.delivered.len();
            s.delivered.push(val);
            if nth < items {
                out.stream_items += 1;
                if !ok {
                    out.problems.push(("lookalike/stream-item-rejected-while-consumer-alive".into(), format!("item {nth}")));
                    continue;
                }
                match &new_events[..] {
                    [(tag, v)] => {
                        if *v != val {
                            out.problems.push(("lookalike/stream-item-changed-or-misrouted".into(), format!("sent {val}, continuation {tag} received {v}")));
                        }
                        match s.tag {
                            None => {
                                if let Some(other) = tag_owner.insert(*tag, i) {
                                    if other != i {
                                        out.problems.push(("lookalike/two-streams-feed-the-same-consumer".into(), format!("tag {tag}")));
                                    }
                                }
                                s.tag = Some(*tag);
                            }
                            Some(t) if t != *tag => out.problems.push((
                                "lookalike/stream-item-reached-another-consumer".into(),
                                format!("stream {i}: first item went to {t}, item {nth} to {tag}"),
                            )),
                            _ => {}
                        }
                    }
                    other => out.problems.push((
                        "lookalike/stream-item-not-delivered-exactly-once".into(),
                        format!("item {nth} ({val}) produced {other:?}"),
                    )),
                }
            } else {
                // the consumer read `items` items and ended: this one must be rejected, never delivered
                if ok {
                    out.problems.push(("lookalike/item-accepted-after-consumer-ended".into(), String::new()));
                }
                if !new_events.is_empty() {
                    out.problems.push(("lookalike/item-delivered-after-consumer-ended".into(), format!("{new_events:?}")));
                }
            }
        }
    }
    out
}
