//! Model-free conservation cases: a task aborts a command (its own, or a sibling's) in the middle of
//! a pass in which it and others produce outputs. When exactly the rest of that pass stops is not
//! specified, so no reference model predicts these runs. What holds whatever the timing: every
//! shell request a task really made is handed over exactly once, and every event a task really
//! emitted is delivered exactly once. The making side is logged by the script interpreter where
//! the API sends (ops::FREE_LOG), the receiving side is what the host observes.

use std::collections::BTreeMap;

use serde_json::{json, Value};
use vcommon::Rng;

use crate::ast::*;
use crate::hosts::Host;
use crate::model::Key;
use crate::ops;

pub struct FreeOutcome {
    pub findings: Vec<(String, String, Value)>,
    pub actions: Vec<Action>,
    pub requests_made: usize,
    pub events_made: usize,
    pub aborts_from_inside_a_task: usize,
}

/// a program around a "stopper": `subscription.and(stopper)`-like shapes
pub fn gen_program(rng: &mut Rng) -> Cmd {
    let mut site = 1u32;
    let mut tag = 1u32;
    let mut worker = |rng: &mut Rng, stopper: Option<u32>, site: &mut u32, tag: &mut u32| -> Cmd {
        let mut instrs = vec![];
        let mut regs = 0usize;
        let n = rng.range(3, 9);
        let stop_at = rng.below(n);
        for i in 0..n {
            match rng.below(6) {
                0 | 1 => {
                    instrs.push(Instr::Req { site: *site, arg: None });
                    *site += 1;
                    regs += 1;
                }
                2 => {
                    instrs.push(Instr::Notify { site: *site });
                    *site += 1;
                }
                _ => {
                    instrs.push(Instr::Emit { tag: *tag, reg: if regs > 0 { Some(regs - 1) } else { None } });
                    *tag += 1;
                }
            }
            if let (Some(h), true) = (stopper, i == stop_at) {
                instrs.push(Instr::AbortCmd { handle: h });
                // outputs right after the abort, in the same pass
                for _ in 0..rng.range(1, 3) {
                    if rng.chance(1, 2) {
                        instrs.push(Instr::Emit { tag: *tag, reg: None });
                        *tag += 1;
                    } else {
                        instrs.push(Instr::Notify { site: *site });
                        *site += 1;
                    }
                }
            }
        }
        Cmd::Async(Script { instrs })
    };
    let wrap = |c: Cmd, rng: &mut Rng| -> Cmd {
        let mut c = c;
        for _ in 0..rng.below(3) {
            c = match rng.below(6) {
                0 => Cmd::MapEvent(Box::new(c), 0),
                1 => Cmd::All(vec![c]),
                2 => Cmd::Then(Box::new(Cmd::Done), Box::new(c)),
                3 => Cmd::And(Box::new(c), Box::new(Cmd::Done)),
                4 => Cmd::MapEffect(Box::new(c), 0),
                _ => Cmd::Then(Box::new(c), Box::new(Cmd::Done)),
            };
        }
        c
    };
    // who aborts what: a task inside the abortable command aborts its own command, or a sibling
    // outside aborts it
    let inside = rng.chance(1, 2);
    let a = worker(rng, if inside { Some(1) } else { None }, &mut site, &mut tag);
    let b = worker(rng, None, &mut site, &mut tag);
    let inner = if rng.chance(1, 2) { Cmd::And(Box::new(a), Box::new(b)) } else { Cmd::All(vec![b, a]) };
    let abortable = wrap(Cmd::Abortable(Box::new(wrap(inner, rng)), 1), rng);
    if inside {
        if rng.chance(1, 2) {
            abortable
        } else {
            let c = worker(rng, None, &mut site, &mut tag);
            wrap(Cmd::And(Box::new(abortable), Box::new(c)), rng)
        }
    } else {
        let stopper = worker(rng, Some(1), &mut site, &mut tag);
        wrap(if rng.chance(1, 2) { Cmd::And(Box::new(abortable), Box::new(stopper)) } else { Cmd::All(vec![stopper, abortable]) }, rng)
    }
}

fn multiset<T: Ord + Clone>(xs: &[T]) -> BTreeMap<T, usize> {
    let mut m = BTreeMap::new();
    for x in xs {
        *m.entry(x.clone()).or_insert(0) += 1;
    }
    m
}

/// Run one host on its own (its outstanding requests may legitimately differ from another host's
/// once the abort timing differs). `replay`: the actions of an earlier run.
pub fn run(program: &Cmd, host: &mut dyn Host, slot: u32, rng: &mut Rng, steps: usize, replay: Option<&[Action]>) -> FreeOutcome {
    ops::reset_registries();
    ops::set_slot(slot);
    ops::FREE_LOG.lock().unwrap().clear();
    ops::FREE_LOG_ON.store(true, std::sync::atomic::Ordering::SeqCst);
    let mut findings = vec![];
    let mut actions = vec![];
    let mut got_effects: Vec<(u32, u64, u8)> = vec![];
    let mut got_events: Vec<(u32, u64)> = vec![];
    let mut val = 10_000u64;
    let name = host.name();
    let mut check = |obs: &crate::hosts::Obs, step: usize, got_effects: &mut Vec<(u32, u64, u8)>, got_events: &mut Vec<(u32, u64)>, findings: &mut Vec<(String, String, Value)>| {
        got_effects.extend(obs.effects.iter().map(|e| (e.site, e.arg, e.kind)));
        got_events.extend(obs.events.iter().map(|e| (e.tag, e.val)));
        for a in &obs.anomalies {
            let stem: String = a.chars().take_while(|c| !c.is_ascii_digit()).collect();
            // an aborted command legitimately keeps stale ready ids; everything else counts
            if stem.contains("not quiescent") {
                continue;
            }
            findings.push((format!("anomaly/{}@{name}", stem.trim().replace(' ', "-")), a.clone(), json!({"step": step})));
        }
        if obs.partial {
            return;
        }
        let log = ops::FREE_LOG.lock().unwrap().clone();
        let made_effects: Vec<(u32, u64, u8)> = log.iter().filter(|l| l.0 == slot && l.1).map(|l| (l.2, l.3, l.4)).collect();
        let made_events: Vec<(u32, u64)> = log.iter().filter(|l| l.0 == slot && !l.1).map(|l| (l.2, l.3)).collect();
        let (me, ge) = (multiset(&made_effects), multiset(got_effects));
        if me != ge {
            let lost: Vec<_> = me.iter().filter(|(k, n)| ge.get(*k).copied().unwrap_or(0) < **n).map(|(k, _)| *k).collect();
            let extra: Vec<_> = ge.iter().filter(|(k, n)| me.get(*k).copied().unwrap_or(0) < **n).map(|(k, _)| *k).collect();
            let sig = if !lost.is_empty() { "conservation/request-made-but-never-handed-over" } else { "conservation/request-handed-over-more-often-than-made" };
            findings.push((format!("{sig}@{name}"), "the shell requests handed over are not exactly the requests the tasks made".into(), json!({"step": step, "lost_site_arg_kind": lost, "extra_site_arg_kind": extra})));
        }
        let (mv, gv) = (multiset(&made_events), multiset(got_events));
        if mv != gv {
            let lost: Vec<_> = mv.iter().filter(|(k, n)| gv.get(*k).copied().unwrap_or(0) < **n).map(|(k, _)| *k).collect();
            let extra: Vec<_> = gv.iter().filter(|(k, n)| mv.get(*k).copied().unwrap_or(0) < **n).map(|(k, _)| *k).collect();
            let sig = if !lost.is_empty() { "conservation/event-emitted-but-never-delivered" } else { "conservation/event-delivered-more-often-than-emitted" };
            findings.push((format!("{sig}@{name}"), "the events delivered are not exactly the events the tasks emitted".into(), json!({"step": step, "lost_tag_val": lost, "extra_tag_val": extra})));
        }
    };
    let obs = host.start(program);
    check(&obs, 0, &mut got_effects, &mut got_events, &mut findings);
    for step in 1..=steps {
        if !findings.is_empty() {
            break;
        }
        let action = match replay {
            Some(acts) => match acts.get(step - 1) {
                Some(a) => a.clone(),
                None => break,
            },
            None => {
                let keys: Vec<(Key, u8)> = host.keys();
                if keys.is_empty() {
                    if step > 1 && rng.chance(1, 2) {
                        break;
                    }
                    Action::Noop
                } else {
                    let ((site, arg), kind) = keys[rng.usize_below(keys.len())];
                    let can_drop = host.caps().drop;
                    if kind != KIND_NEVER && (!can_drop || rng.chance(2, 3)) {
                        val += 1;
                        Action::Resolve { site, arg, val }
                    } else if can_drop {
                        Action::DropReq { site, arg }
                    } else {
                        Action::Noop
                    }
                }
            }
        };
        let obs = host.act(&action);
        actions.push(action);
        check(&obs, step, &mut got_effects, &mut got_events, &mut findings);
    }
    if findings.is_empty() {
        let obs = host.flush();
        check(&obs, steps + 1, &mut got_effects, &mut got_events, &mut findings);
    }
    host.finish();
    ops::FREE_LOG_ON.store(false, std::sync::atomic::Ordering::SeqCst);
    let log = ops::FREE_LOG.lock().unwrap();
    FreeOutcome {
        findings,
        actions,
        requests_made: log.iter().filter(|l| l.1).count(),
        events_made: log.iter().filter(|l| !l.1).count(),
        aborts_from_inside_a_task: 1,
    }
}
