//! Hosts: ways of running one program under one action history, observed per step.

use std::collections::HashMap;
use std::sync::atomic::{AtomicBool, Ordering};
use std::sync::Arc;
use std::task::{Context, Poll, Wake, Waker};

use bincode::Options;
use crux_core::bridge::{Bridge, BridgeWithSerializer};
use crux_core::command::CommandOutput;
use crux_core::{Command, Core, Request};
use futures::Stream;
use serde::{Deserialize, Serialize};

use crate::ast::*;
use crate::build::build;
use crate::model::{EffObs, EvObs, Key};
use crate::ops::*;

#[derive(Clone, Debug, Default, Serialize)]
pub struct Obs {
    pub effects: Vec<EffObs>,
    pub events: Vec<EvObs>,
    pub done: Option<bool>,
    /// result of a resolve action: Some(true) = Ok
    pub resolve_ok: Option<bool>,
    /// results of the resolutions inside a `Batch`, in order (None for drops)
    pub batch_resolve_ok: Vec<Option<bool>>,
    /// host-specific anomalies (each is a violation on its own)
    pub anomalies: Vec<String>,
    /// live tasks in the root command, where the host can see it
    pub live_tasks: Option<usize>,
    /// the host stopped consuming outputs early (a lagging consumer): more of this step's
    /// outputs will be reported by a later step; compare cumulatively
    pub partial: bool,
}

#[derive(Clone, Copy, Debug)]
pub struct Caps {
    pub drop: bool,
    pub reresolve: bool,
    pub resolve_never_twice: bool,
    pub abort_before_start: bool,
    pub done: bool,
    pub command_api: bool,
    /// the host holds the command object and can extend it from outside
    pub extend: bool,
    /// several shell actions before the next run: 0 = no, 1 = drops followed by one call, 2 = any
    pub batch: u8,
    /// a serialized image of the typed core: the requests of one call must also come in the
    /// order in which the typed twin (first host with the same model) returns its effects
    pub order_twin: bool,
}

pub trait Host {
    fn name(&self) -> &'static str;
    fn caps(&self) -> Caps;
    /// build the program without polling it (only hosts with `abort_before_start`)
    fn prepare(&mut self, _program: &Cmd) {
        unimplemented!()
    }
    fn first_poll(&mut self) -> Obs {
        unimplemented!()
    }
    fn start(&mut self, program: &Cmd) -> Obs;
    fn act(&mut self, action: &Action) -> Obs;
    /// drop everything the host still holds; returns anomalies seen while doing so
    fn finish(&mut self) -> Vec<String> {
        vec![]
    }
    /// lagging hosts: consume everything that is still queued (called before the end)
    fn flush(&mut self) -> Obs {
        Obs::default()
    }
    /// requests this host currently holds (model-free drivers pick their actions from here)
    fn keys(&self) -> Vec<(Key, u8)> {
        vec![]
    }
}

fn table_keys(table: &HashMap<Key, ReqObj>) -> Vec<(Key, u8)> {
    let mut v: Vec<(Key, u8)> = table
        .iter()
        .map(|(k, r)| {
            (
                *k,
                match r {
                    ReqObj::Op(r) => r.operation.kind,
                    ReqObj::Sig(_) => KIND_NEVER,
                },
            )
        })
        .collect();
    v.sort();
    v
}

pub enum ReqObj {
    Op(Request<Op>),
    Sig(Request<Sig>),
}

fn obs_effect<Ef: LabEffect>(e: Ef, table: &mut HashMap<Key, ReqObj>, out: &mut Obs) {
    match e.split() {
        Split::Op(r) => {
            let o = r.operation.clone();
            out.effects.push(EffObs {
                site: o.site,
                arg: o.arg,
                kind: o.kind,
                trail: o.trail,
            });
            if table.insert((o.site, o.arg), ReqObj::Op(r)).is_some() {
                out.anomalies
                    .push(format!("effect for ({}, {}) handed over twice", o.site, o.arg));
            }
        }
        Split::Sig(r) => {
            let o = r.operation.clone();
            out.effects.push(EffObs {
                site: o.site,
                arg: 0,
                kind: KIND_NEVER,
                trail: o.trail,
            });
            if table.insert((o.site, 0), ReqObj::Sig(r)).is_some() {
                out.anomalies
                    .push(format!("notification for site {} handed over twice", o.site));
            }
        }
    }
}

fn obs_event(e: Event, out: &mut Obs) {
    match e {
        Event::Out {
            tag, val, trail, ..
        } => out.events.push(EvObs { tag, val, trail }),
        other => out
            .anomalies
            .push(format!("unexpected event from a task: {other:?}")),
    }
}

/// apply the members of a batch to a request table without letting anything run
fn apply_batch_quietly(table: &mut HashMap<Key, ReqObj>, subs: &[Action], out: &mut Obs) {
    for s in subs {
        match s {
            Action::Resolve { site, arg, val } => {
                let obj = table.get_mut(&(*site, *arg)).expect("request in table");
                out.batch_resolve_ok.push(Some(resolve_obj(obj, *val)));
            }
            Action::DropReq { site, arg } => {
                drop(table.remove(&(*site, *arg)).expect("request in table"));
                out.batch_resolve_ok.push(None);
            }
            other => unreachable!("not a batch member: {other:?}"),
        }
    }
}

fn resolve_obj(obj: &mut ReqObj, val: u64) -> bool {
    match obj {
        ReqObj::Op(r) => r.resolve(Val(val)).is_ok(),
        ReqObj::Sig(r) => r.resolve(()).is_ok(),
    }
}

// ---------------------------------------------------------------------------
// Direct: effects()/events()/is_done() on the command itself
// ---------------------------------------------------------------------------

pub struct Direct<Ef: LabEffect> {
    cmd: Option<Command<Ef, Event>>,
    table: HashMap<Key, ReqObj>,
    /// lagging holder: sometimes takes the effects only and leaves the events queued inside the
    /// command while the next action happens; asks `is_done()` before it drains
    lag: Option<vcommon::Rng>,
}

impl<Ef: LabEffect> Direct<Ef> {
    pub fn new() -> Self {
        Direct {
            cmd: None,
            table: HashMap::new(),
            lag: None,
        }
    }

    pub fn lagging() -> Self {
        Direct {
            lag: Some(vcommon::Rng::new(0)),
            ..Self::new()
        }
    }

    fn observe(&mut self, out: &mut Obs) {
        self.observe_with(out, false)
    }

    fn observe_with(&mut self, out: &mut Obs, flush: bool) {
        if let Some(rng) = self.lag.as_mut() {
            let cmd = self.cmd.as_mut().expect("started");
            // a holder's loop `while !cmd.is_done() { take outputs }` relies on this: done means
            // nothing is left to take
            // (asking first also runs the command, so only every other time)
            let done_first = rng.chance(1, 2) && cmd.is_done();
            // sometimes take the first effect only (`effects().next()`), sometimes all of them
            let take_one = !flush && rng.chance(1, 3);
            let effects: Vec<Ef> = if take_one { cmd.effects().next().into_iter().collect() } else { cmd.effects().collect() };
            let leave_events = take_one || (!flush && rng.chance(1, 2));
            let events: Vec<Event> = if leave_events { vec![] } else { cmd.events().collect() };
            if !take_one && !leave_events {
                // `effects()` ran the command until it settled: nothing can turn up behind it
                let late: Vec<Ef> = cmd.effects().collect();
                if !late.is_empty() {
                    out.anomalies.push(format!(
                        "effects() did not run the command until it settled: {} more effect(s) right after it returned",
                        late.len()
                    ));
                    for e in late {
                        obs_effect(e, &mut self.table, out);
                    }
                }
            }
            if done_first && (!effects.is_empty() || !events.is_empty()) {
                out.anomalies.push(format!(
                    "is_done() was true while outputs were still queued: effects={} events={}",
                    effects.len(),
                    events.len()
                ));
            }
            for e in effects {
                obs_effect(e, &mut self.table, out);
            }
            for e in events {
                obs_event(e, out);
            }
            if leave_events {
                out.partial = true;
                return;
            }
        }
        let cmd = self.cmd.as_mut().expect("started");
        // one pass is enough at quiescence; a second pass that still yields output is
        // recorded but not an anomaly by itself (the model decides)
        for _ in 0..3 {
            let effects: Vec<Ef> = cmd.effects().collect();
            let events: Vec<Event> = cmd.events().collect();
            if effects.is_empty() && events.is_empty() {
                break;
            }
            for e in effects {
                obs_effect(e, &mut self.table, out);
            }
            for e in events {
                obs_event(e, out);
            }
        }
        out.done = Some(cmd.is_done());
        let stats = cmd.verif_stats();
        out.live_tasks = Some(stats.live_tasks);
        // an aborted command stops draining its queues: stale ids of dropped tasks are harmless
        if (stats.ready_len != 0 || stats.spawn_len != 0) && !cmd.was_aborted() {
            out.anomalies.push(format!(
                "command not quiescent after settle: ready={} spawn={}",
                stats.ready_len, stats.spawn_len
            ));
        }
        if stats.effects_len != 0 || stats.events_len != 0 {
            out.anomalies.push(format!(
                "outputs left behind after draining: effects={} events={}",
                stats.effects_len, stats.events_len
            ));
        }
    }
}

impl<Ef: LabEffect> Host for Direct<Ef> {
    fn name(&self) -> &'static str {
        if self.lag.is_some() {
            "DirectLag"
        } else {
            "Direct"
        }
    }
    fn caps(&self) -> Caps {
        Caps {
            drop: true,
            reresolve: true,
            resolve_never_twice: true,
            abort_before_start: true,
            done: true,
            command_api: true,
            extend: true,
            batch: 2,
            order_twin: false,
        }
    }
    fn prepare(&mut self, program: &Cmd) {
        self.cmd = Some(build::<Ef>(program));
        if self.lag.is_some() {
            self.lag = Some(vcommon::Rng::derive(vcommon::hash_json(program), 0, 78));
        }
    }
    fn first_poll(&mut self) -> Obs {
        let mut out = Obs::default();
        self.observe(&mut out);
        out
    }
    fn flush(&mut self) -> Obs {
        let mut out = Obs::default();
        self.observe_with(&mut out, true);
        out
    }
    fn start(&mut self, program: &Cmd) -> Obs {
        self.prepare(program);
        self.first_poll()
    }
    fn act(&mut self, action: &Action) -> Obs {
        let mut out = Obs::default();
        if self.lag.is_some() {
            // the action may be about a request this holder has not taken yet: take the rest first
            fn missing(table: &HashMap<Key, ReqObj>, a: &Action) -> bool {
                match a {
                    Action::Resolve { site, arg, .. } | Action::DropReq { site, arg } => !table.contains_key(&(*site, *arg)),
                    Action::Batch(subs) => subs.iter().any(|s| missing(table, s)),
                    _ => false,
                }
            }
            if missing(&self.table, action) {
                let cmd = self.cmd.as_mut().expect("started");
                let rest: Vec<Ef> = cmd.effects().collect();
                for e in rest {
                    obs_effect(e, &mut self.table, &mut out);
                }
            }
        }
        match action {
            Action::Resolve { site, arg, val } => {
                let obj = self.table.get_mut(&(*site, *arg)).expect("request in table");
                out.resolve_ok = Some(resolve_obj(obj, *val));
            }
            Action::DropReq { site, arg } => {
                drop(self.table.remove(&(*site, *arg)).expect("request in table"));
            }
            Action::Abort { handle } => {
                if !call_abort(*handle) {
                    out.anomalies.push(format!("abort handle {handle} not registered"));
                }
            }
            Action::Noop => {}
            Action::Extend(c) => {
                let cmd = self.cmd.take().expect("started");
                self.cmd = Some(cmd.and(build::<Ef>(c)));
            }
            Action::Batch(subs) => apply_batch_quietly(&mut self.table, subs, &mut out),
        }
        self.observe(&mut out);
        out
    }
    fn keys(&self) -> Vec<(Key, u8)> {
        table_keys(&self.table)
    }
    fn finish(&mut self) -> Vec<String> {
        self.table.clear();
        self.cmd = None;
        vec![]
    }
}

// ---------------------------------------------------------------------------
// StreamHost: the command driven as a `Stream` with our own waker
// ---------------------------------------------------------------------------

struct FlagWaker(AtomicBool);

impl Wake for FlagWaker {
    fn wake(self: Arc<Self>) {
        self.0.store(true, Ordering::SeqCst);
    }
    fn wake_by_ref(self: &Arc<Self>) {
        self.0.store(true, Ordering::SeqCst);
    }
}

pub struct StreamHost<Ef: LabEffect> {
    cmd: Option<std::pin::Pin<Box<Command<Ef, Event>>>>,
    table: HashMap<Key, ReqObj>,
    flag: Arc<FlagWaker>,
    ended: bool,
    /// lagging consumer: after an action take only a few of the outputs that are ready and
    /// leave the rest queued inside the command while the next action happens (what a second
    /// thread, or a consumer doing other work between items, does)
    lag: Option<vcommon::Rng>,
    behind: bool,
}

impl<Ef: LabEffect> StreamHost<Ef> {
    pub fn new() -> Self {
        StreamHost {
            cmd: None,
            table: HashMap::new(),
            flag: Arc::new(FlagWaker(AtomicBool::new(false))),
            ended: false,
            lag: None,
            behind: false,
        }
    }

    pub fn lagging() -> Self {
        StreamHost {
            lag: Some(vcommon::Rng::new(0)),
            ..Self::new()
        }
    }

    fn limit(&mut self) -> Option<usize> {
        let r = self.lag.as_mut()?;
        if r.chance(1, 3) {
            None
        } else {
            Some(r.range(1, 3) as usize)
        }
    }

    fn needs(&self, action: &Action) -> bool {
        match action {
            Action::Resolve { site, arg, .. } | Action::DropReq { site, arg } => !self.table.contains_key(&(*site, *arg)),
            Action::Batch(subs) => subs.iter().any(|a| self.needs(a)),
            Action::Extend(_) => true,
            _ => false,
        }
    }

    /// Poll until Pending / end. `woken`: whether our waker had been woken since the last
    /// poll; an output that shows up on a poll we were not woken for is a lost wake-up.
    fn drain(&mut self, woken: bool, first: bool, limit: Option<usize>, out: &mut Obs) {
        self.behind = false;
        if self.ended {
            out.done = Some(true);
            return;
        }
        let waker: Waker = self.flag.clone().into();
        let mut cx = Context::from_waker(&waker);
        let mut produced = 0usize;
        loop {
            self.flag.0.store(false, Ordering::SeqCst);
            let cmd = self.cmd.as_mut().expect("started");
            match cmd.as_mut().poll_next(&mut cx) {
                Poll::Ready(Some(CommandOutput::Effect(e))) => {
                    produced += 1;
                    obs_effect(e, &mut self.table, out)
                }
                Poll::Ready(Some(CommandOutput::Event(e))) => {
                    produced += 1;
                    obs_event(e, out)
                }
                Poll::Ready(None) => {
                    self.ended = true;
                    break;
                }
                Poll::Pending => {
                    // a task may have woken itself (and us) while running: poll again
                    if self.flag.0.load(Ordering::SeqCst) {
                        continue;
                    }
                    break;
                }
            }
            if limit.is_some_and(|k| produced >= k) {
                // the command has settled (every poll runs it until it settles), the rest of
                // its outputs stay queued inside it
                self.behind = true;
                out.partial = true;
                return;
            }
        }
        if produced > 0 && !woken && !first && self.lag.is_none() {
            out.anomalies.push(format!(
                "lost wake-up: {produced} output(s) were ready but the host's waker was never woken"
            ));
        }
        out.done = Some(self.ended);
        if let Some(cmd) = self.cmd.as_ref() {
            out.live_tasks = Some(cmd.verif_stats().live_tasks);
        }
    }
}

impl<Ef: LabEffect> Host for StreamHost<Ef> {
    fn name(&self) -> &'static str {
        if self.lag.is_some() {
            "StreamLagHost"
        } else {
            "StreamHost"
        }
    }
    fn caps(&self) -> Caps {
        Caps {
            drop: true,
            reresolve: true,
            resolve_never_twice: true,
            abort_before_start: true,
            done: true,
            command_api: true,
            extend: true,
            batch: 2,
            order_twin: false,
        }
    }
    fn prepare(&mut self, program: &Cmd) {
        self.cmd = Some(Box::pin(build::<Ef>(program)));
        if self.lag.is_some() {
            self.lag = Some(vcommon::Rng::derive(vcommon::hash_json(program), 0, 77));
        }
    }
    fn first_poll(&mut self) -> Obs {
        let mut out = Obs::default();
        let limit = self.limit();
        self.drain(true, true, limit, &mut out);
        out
    }
    fn flush(&mut self) -> Obs {
        let mut out = Obs::default();
        self.drain(true, true, None, &mut out);
        out
    }
    fn start(&mut self, program: &Cmd) -> Obs {
        self.prepare(program);
        self.first_poll()
    }
    fn act(&mut self, action: &Action) -> Obs {
        let mut out = Obs::default();
        if self.behind && self.needs(action) {
            // the action is about a request this consumer has not taken yet: catch up first
            self.drain(true, true, None, &mut out);
        }
        self.flag.0.store(false, Ordering::SeqCst);
        match action {
            Action::Resolve { site, arg, val } => {
                let obj = self.table.get_mut(&(*site, *arg)).expect("request in table");
                out.resolve_ok = Some(resolve_obj(obj, *val));
            }
            Action::DropReq { site, arg } => {
                drop(self.table.remove(&(*site, *arg)).expect("request in table"));
            }
            Action::Abort { handle } => {
                if !call_abort(*handle) {
                    out.anomalies.push(format!("abort handle {handle} not registered"));
                }
            }
            Action::Noop => {}
            Action::Extend(c) => {
                let cmd = self.cmd.take().expect("started");
                // SAFETY-free: Command is Unpin, so it can be moved out of the pinned box
                let cmd = *std::pin::Pin::into_inner(cmd);
                self.cmd = Some(Box::pin(cmd.and(build::<Ef>(c))));
                // `and` queues a task without waking anybody: the holder polls after extending
                self.flag.0.store(true, Ordering::SeqCst);
                self.ended = false;
            }
            Action::Batch(subs) => apply_batch_quietly(&mut self.table, subs, &mut out),
        }
        let woken = self.flag.0.load(Ordering::SeqCst);
        let limit = self.limit();
        self.drain(woken, false, limit, &mut out);
        out
    }
    fn keys(&self) -> Vec<(Key, u8)> {
        table_keys(&self.table)
    }
    fn finish(&mut self) -> Vec<String> {
        self.table.clear();
        self.cmd = None;
        vec![]
    }
}

// ---------------------------------------------------------------------------
// EagerHost: a stream host whose waker polls the command at once, from inside `wake`
// (an inline executor). Only outputs found by a poll that a wake asked for count.
// ---------------------------------------------------------------------------

struct EagerShared<Ef: LabEffect> {
    cmd: Option<std::pin::Pin<Box<Command<Ef, Event>>>>,
    effects: Vec<Ef>,
    events: Vec<Event>,
    ended: bool,
    /// outputs found by the last probe poll that nobody asked for
    unasked: usize,
}

struct EagerWaker<Ef: LabEffect> {
    shared: std::sync::Mutex<EagerShared<Ef>>,
    /// wake arrived while the command was being polled: poll again afterwards
    again: AtomicBool,
    me: std::sync::Mutex<Option<std::sync::Weak<EagerWaker<Ef>>>>,
}

impl<Ef: LabEffect> EagerWaker<Ef> {
    fn poll_now(self: &Arc<Self>, asked: bool) {
        let Ok(mut sh) = self.shared.try_lock() else {
            // re-entrant wake (a task woke itself while being polled)
            self.again.store(true, Ordering::SeqCst);
            return;
        };
        let waker: Waker = self.clone().into();
        let mut cx = Context::from_waker(&waker);
        loop {
            self.again.store(false, Ordering::SeqCst);
            if sh.ended || sh.cmd.is_none() {
                break;
            }
            let mut produced = 0;
            loop {
                let cmd = sh.cmd.as_mut().unwrap();
                match cmd.as_mut().poll_next(&mut cx) {
                    Poll::Ready(Some(CommandOutput::Effect(e))) => {
                        produced += 1;
                        sh.effects.push(e)
                    }
                    Poll::Ready(Some(CommandOutput::Event(e))) => {
                        produced += 1;
                        sh.events.push(e)
                    }
                    Poll::Ready(None) => {
                        sh.ended = true;
                        break;
                    }
                    Poll::Pending => break,
                }
            }
            if !asked {
                sh.unasked += produced;
            }
            if !self.again.load(Ordering::SeqCst) {
                break;
            }
        }
    }
}

impl<Ef: LabEffect> Wake for EagerWaker<Ef> {
    fn wake(self: Arc<Self>) {
        self.poll_now(true);
    }
    fn wake_by_ref(self: &Arc<Self>) {
        self.poll_now(true);
    }
}

pub struct EagerHost<Ef: LabEffect> {
    w: Arc<EagerWaker<Ef>>,
    table: HashMap<Key, ReqObj>,
}

impl<Ef: LabEffect> EagerHost<Ef> {
    pub fn new() -> Self {
        EagerHost {
            w: Arc::new(EagerWaker {
                shared: std::sync::Mutex::new(EagerShared {
                    cmd: None,
                    effects: vec![],
                    events: vec![],
                    ended: false,
                    unasked: 0,
                }),
                again: AtomicBool::new(false),
                me: std::sync::Mutex::new(None),
            }),
            table: HashMap::new(),
        }
    }

    fn collect(&mut self, first: bool, out: &mut Obs) {
        // probe: a poll nobody asked for must not find new output (lost wake-up otherwise)
        self.w.poll_now(first);
        let mut sh = self.w.shared.lock().unwrap();
        let effects = std::mem::take(&mut sh.effects);
        let events = std::mem::take(&mut sh.events);
        if sh.unasked > 0 {
            out.anomalies.push(format!(
                "lost wake-up: {} output(s) were ready but the host's waker was never woken",
                sh.unasked
            ));
            sh.unasked = 0;
        }
        out.done = Some(sh.ended);
        if let Some(cmd) = sh.cmd.as_ref() {
            out.live_tasks = Some(cmd.verif_stats().live_tasks);
        }
        drop(sh);
        for e in effects {
            obs_effect(e, &mut self.table, out);
        }
        for e in events {
            obs_event(e, out);
        }
    }
}

impl<Ef: LabEffect> Host for EagerHost<Ef> {
    fn name(&self) -> &'static str {
        "EagerHost"
    }
    fn caps(&self) -> Caps {
        Caps {
            drop: true,
            reresolve: true,
            resolve_never_twice: true,
            abort_before_start: true,
            done: true,
            command_api: true,
            extend: false,
            batch: 2,
            order_twin: false,
        }
    }
    fn prepare(&mut self, program: &Cmd) {
        let _ = &self.w.me;
        self.w.shared.lock().unwrap().cmd = Some(Box::pin(build::<Ef>(program)));
    }
    fn first_poll(&mut self) -> Obs {
        let mut out = Obs::default();
        self.collect(true, &mut out);
        out
    }
    fn start(&mut self, program: &Cmd) -> Obs {
        self.prepare(program);
        self.first_poll()
    }
    fn act(&mut self, action: &Action) -> Obs {
        let mut out = Obs::default();
        let mut asked = false;
        match action {
            Action::Resolve { site, arg, val } => {
                let obj = self.table.get_mut(&(*site, *arg)).expect("request in table");
                out.resolve_ok = Some(resolve_obj(obj, *val));
            }
            Action::DropReq { site, arg } => {
                drop(self.table.remove(&(*site, *arg)).expect("request in table"));
            }
            Action::Abort { handle } => {
                if !call_abort(*handle) {
                    out.anomalies.push(format!("abort handle {handle} not registered"));
                }
                // an abort wakes nobody; the holder of the handle polls afterwards
                asked = true;
            }
            Action::Noop => {}
            Action::Extend(_) => unreachable!(),
            Action::Batch(subs) => apply_batch_quietly(&mut self.table, subs, &mut out),
        }
        self.collect(asked, &mut out);
        out
    }
    fn finish(&mut self) -> Vec<String> {
        self.table.clear();
        self.w.shared.lock().unwrap().cmd = None;
        vec![]
    }
}

// ---------------------------------------------------------------------------
// Core hosts (typed)
// ---------------------------------------------------------------------------

pub trait LabApp: crux_core::App<Event = Event, ViewModel = ViewModel> + 'static
where
    Self::Effect: LabEffect,
{
    const NAME: &'static str;
    fn new_core() -> Core<Self>;
}

impl LabApp for AppM {
    const NAME: &'static str = "CoreCmd(attribute-macro effect)";
    fn new_core() -> Core<Self> {
        Core::new()
    }
}

impl LabApp for AppD {
    const NAME: &'static str = "CoreCmd(derive effect)";
    fn new_core() -> Core<Self> {
        Core::new()
    }
}

pub struct CoreHost<A: LabApp>
where
    A::Effect: LabEffect,
{
    pub core: Core<A>,
    pub table: HashMap<Key, ReqObj>,
    pub seen_log: usize,
    pub legacy: bool,
    /// scripts use capability futures inside Command tasks (`Event::StartMixed`)
    pub mixed: bool,
}

impl<A: LabApp> CoreHost<A>
where
    A::Effect: LabEffect,
{
    pub fn new(legacy: bool) -> Self {
        CoreHost {
            core: A::new_core(),
            table: HashMap::new(),
            seen_log: 0,
            legacy,
            mixed: false,
        }
    }

    pub fn mixed() -> Self {
        CoreHost {
            mixed: true,
            ..Self::new(false)
        }
    }

    pub fn observe(&mut self, effects: Vec<A::Effect>, out: &mut Obs) {
        for e in effects {
            obs_effect(e, &mut self.table, out);
        }
        let view = self.core.view();
        if view.log.len() < self.seen_log {
            out.anomalies.push("the view lost applied events".into());
        }
        for l in view.log.iter().skip(self.seen_log) {
            out.events.push(EvObs {
                tag: l.tag,
                val: l.val,
                trail: l.trail.clone(),
            });
        }
        self.seen_log = view.log.len();
        let s = self.core.verif_executor_stats();
        if s.ready_len != 0 || s.spawn_len != 0 || s.requests_len != 0 || s.events_len != 0 {
            out.anomalies.push(format!(
                "core not quiescent when the call returned: ready={} spawn={} effects={} events={}",
                s.ready_len, s.spawn_len, s.requests_len, s.events_len
            ));
        }
        out.live_tasks = Some(s.live_tasks);
    }
}

impl<A: LabApp> Host for CoreHost<A>
where
    A::Effect: LabEffect,
{
    fn name(&self) -> &'static str {
        if self.legacy {
            "CoreLegacy"
        } else if self.mixed {
            "CoreMixed"
        } else {
            A::NAME
        }
    }
    fn caps(&self) -> Caps {
        Caps {
            // a capability future keeps its task's waker alive by itself: dropping the request
            // leaves the task waiting for ever instead of cancelling it (legacy behaviour)
            drop: !self.legacy && !self.mixed,
            reresolve: true,
            resolve_never_twice: true,
            abort_before_start: false,
            done: false,
            command_api: !self.legacy,
            extend: false,
            batch: if self.legacy { 0 } else { 1 },
            order_twin: false,
        }
    }
    fn start(&mut self, program: &Cmd) -> Obs {
        let mut out = Obs::default();
        let ev = if self.legacy {
            Event::StartLegacy(Box::new(program.clone()))
        } else if self.mixed {
            Event::StartMixed(Box::new(program.clone()))
        } else {
            Event::Start(Box::new(program.clone()))
        };
        let effects = self.core.process_event(ev);
        self.observe(effects, &mut out);
        out
    }
    fn act(&mut self, action: &Action) -> Obs {
        let mut out = Obs::default();
        let effects = match action {
            Action::Resolve { site, arg, val } => {
                let obj = self.table.get_mut(&(*site, *arg)).expect("request in table");
                let r = match obj {
                    ReqObj::Op(r) => self.core.resolve(r, Val(*val)),
                    ReqObj::Sig(r) => self.core.resolve(r, ()),
                };
                match r {
                    Ok(effects) => {
                        out.resolve_ok = Some(true);
                        effects
                    }
                    Err(_) => {
                        out.resolve_ok = Some(false);
                        // an error returns no effects; anything produced shows up at the next call
                        vec![]
                    }
                }
            }
            Action::DropReq { site, arg } => {
                drop(self.table.remove(&(*site, *arg)).expect("request in table"));
                self.core.process_event(Event::Noop)
            }
            Action::Abort { handle } => {
                if !call_abort(*handle) {
                    out.anomalies.push(format!("abort handle {handle} not registered"));
                }
                self.core.process_event(Event::Noop)
            }
            Action::Noop => self.core.process_event(Event::Noop),
            Action::Extend(_) => unreachable!("the core owns the command"),
            Action::Batch(subs) => {
                // every member but the last is a drop (not a core call); the last one is the call
                let (last, drops) = subs.split_last().expect("non-empty batch");
                for d in drops {
                    let Action::DropReq { site, arg } = d else { unreachable!("only drops before the call") };
                    drop(self.table.remove(&(*site, *arg)).expect("request in table"));
                    out.batch_resolve_ok.push(None);
                }
                match last {
                    Action::Resolve { site, arg, val } => {
                        let obj = self.table.get_mut(&(*site, *arg)).expect("request in table");
                        let r = match obj {
                            ReqObj::Op(r) => self.core.resolve(r, Val(*val)),
                            ReqObj::Sig(r) => self.core.resolve(r, ()),
                        };
                        out.batch_resolve_ok.push(Some(r.is_ok()));
                        match r {
                            Ok(effects) => effects,
                            // a rejected resolution returns before the core processes anything:
                            // like a drop it is not a call that runs the core
                            Err(_) => self.core.process_event(Event::Noop),
                        }
                    }
                    Action::DropReq { site, arg } => {
                        drop(self.table.remove(&(*site, *arg)).expect("request in table"));
                        out.batch_resolve_ok.push(None);
                        self.core.process_event(Event::Noop)
                    }
                    other => unreachable!("not a batch member: {other:?}"),
                }
            }
        };
        self.observe(effects, &mut out);
        out
    }
    fn keys(&self) -> Vec<(Key, u8)> {
        table_keys(&self.table)
    }
    fn finish(&mut self) -> Vec<String> {
        self.table.clear();
        vec![]
    }
}

// ---------------------------------------------------------------------------
// Bridge hosts (serialized)
// ---------------------------------------------------------------------------

/// events of more than 1 MiB sent over a bridge so far (evidence)
pub static LARGE_EVENTS: std::sync::atomic::AtomicU64 = std::sync::atomic::AtomicU64::new(0);

#[derive(Deserialize)]
pub enum FfiEffect {
    #[serde(alias = "OpCap")]
    Op(Op),
    #[serde(alias = "SigCap")]
    Sig(Sig),
}

#[derive(Deserialize)]
pub struct FfiRequest {
    pub id: u32,
    pub effect: FfiEffect,
}

fn bincode_opts() -> impl bincode::Options + Copy {
    bincode::DefaultOptions::new()
        .with_fixint_encoding()
        .allow_trailing_bytes()
}

pub enum Wire {
    Bincode,
    Json,
}

pub struct BridgeHost<A: LabApp>
where
    A::Effect: LabEffect,
{
    bincode: Option<Bridge<A>>,
    json: Option<BridgeWithSerializer<A>>,
    pub ids: HashMap<Key, (u32, u8)>,
    pub seen_log: usize,
    pub ids_seen: Vec<u32>,
    /// no-op probes sent so far
    pub noops: u64,
    /// start programs through the legacy capability API (derive app only)
    pub legacy: bool,
}

impl<A: LabApp> BridgeHost<A>
where
    A::Effect: LabEffect,
{
    pub fn new(wire: Wire) -> Self {
        let core = A::new_core();
        match wire {
            Wire::Bincode => BridgeHost {
                bincode: Some(Bridge::new(core)),
                json: None,
                ids: HashMap::new(),
                seen_log: 0,
                ids_seen: vec![],
                noops: 0,
                legacy: false,
            },
            Wire::Json => BridgeHost {
                bincode: None,
                json: Some(BridgeWithSerializer::new(core)),
                ids: HashMap::new(),
                seen_log: 0,
                ids_seen: vec![],
                noops: 0,
                legacy: false,
            },
        }
    }

    pub fn send_event(&self, ev: &Event) -> Result<Vec<FfiRequest>, String> {
        if let Some(b) = &self.bincode {
            let bytes = bincode_opts().serialize(ev).map_err(|e| e.to_string())?;
            let out = b.process_event(&bytes).map_err(|e| e.to_string())?;
            bincode_opts()
                .deserialize::<Vec<FfiRequest>>(&out)
                .map_err(|e| format!("effects do not decode: {e}"))
        } else {
            let b = self.json.as_ref().unwrap();
            let bytes = serde_json::to_vec(ev).map_err(|e| e.to_string())?;
            let mut out = vec![];
            let mut de = serde_json::Deserializer::from_slice(&bytes);
            let mut ser = serde_json::Serializer::new(&mut out);
            b.process_event(&mut de, &mut ser).map_err(|e| e.to_string())?;
            serde_json::from_slice::<Vec<FfiRequest>>(&out)
                .map_err(|e| format!("effects do not decode: {e}"))
        }
    }

    pub fn respond(&self, id: u32, kind: u8, val: u64) -> Result<Vec<FfiRequest>, String> {
        if let Some(b) = &self.bincode {
            let bytes = if kind == KIND_NEVER {
                bincode_opts().serialize(&()).unwrap()
            } else {
                bincode_opts().serialize(&val).unwrap()
            };
            let out = b.handle_response(id, &bytes).map_err(|e| e.to_string())?;
            bincode_opts()
                .deserialize::<Vec<FfiRequest>>(&out)
                .map_err(|e| format!("effects do not decode: {e}"))
        } else {
            let b = self.json.as_ref().unwrap();
            let bytes = if kind == KIND_NEVER {
                serde_json::to_vec(&()).unwrap()
            } else {
                serde_json::to_vec(&val).unwrap()
            };
            let mut out = vec![];
            let mut de = serde_json::Deserializer::from_slice(&bytes);
            let mut ser = serde_json::Serializer::new(&mut out);
            b.handle_response(id, &mut de, &mut ser)
                .map_err(|e| e.to_string())?;
            serde_json::from_slice::<Vec<FfiRequest>>(&out)
                .map_err(|e| format!("effects do not decode: {e}"))
        }
    }

    pub fn view(&self) -> Result<ViewModel, String> {
        if let Some(b) = &self.bincode {
            let bytes = b.view().map_err(|e| e.to_string())?;
            bincode_opts()
                .deserialize::<ViewModel>(&bytes)
                .map_err(|e| format!("view does not decode: {e}"))
        } else {
            let b = self.json.as_ref().unwrap();
            let mut out = vec![];
            let mut ser = serde_json::Serializer::new(&mut out);
            b.view(&mut ser).map_err(|e| e.to_string())?;
            serde_json::from_slice::<ViewModel>(&out)
                .map_err(|e| format!("view does not decode: {e}"))
        }
    }

    pub fn registry(&self) -> Vec<(u32, crux_core::verif::RegistryKind)> {
        match (&self.bincode, &self.json) {
            (Some(b), _) => b.verif_registry(),
            (_, Some(b)) => b.verif_registry(),
            _ => unreachable!(),
        }
    }

    pub fn observe(&mut self, reqs: Result<Vec<FfiRequest>, String>, out: &mut Obs) {
        match reqs {
            Ok(reqs) => {
                for r in reqs {
                    let (key, eff) = match r.effect {
                        FfiEffect::Op(o) => (
                            (o.site, o.arg),
                            EffObs {
                                site: o.site,
                                arg: o.arg,
                                kind: o.kind,
                                trail: o.trail,
                            },
                        ),
                        FfiEffect::Sig(o) => (
                            (o.site, 0),
                            EffObs {
                                site: o.site,
                                arg: 0,
                                kind: KIND_NEVER,
                                trail: o.trail,
                            },
                        ),
                    };
                    // every outstanding request must carry an id no other outstanding one has
                    if self.ids.values().any(|(id, _)| *id == r.id) {
                        out.anomalies.push(format!(
                            "bridge id {} handed out while still outstanding",
                            r.id
                        ));
                    }
                    self.ids_seen.push(r.id);
                    let kind = eff.kind;
                    out.effects.push(eff);
                    if self.ids.insert(key, (r.id, kind)).is_some() {
                        out.anomalies
                            .push(format!("effect for {key:?} handed over twice"));
                    }
                }
            }
            Err(e) => out.anomalies.push(format!("bridge call failed: {e}")),
        }
        match self.view() {
            Ok(view) => {
                if view.log.len() < self.seen_log {
                    out.anomalies.push("the view lost applied events".into());
                }
                for l in view.log.iter().skip(self.seen_log) {
                    out.events.push(EvObs {
                        tag: l.tag,
                        val: l.val,
                        trail: l.trail.clone(),
                    });
                }
                self.seen_log = view.log.len();
            }
            Err(e) => out.anomalies.push(e),
        }
        let s = match (&self.bincode, &self.json) {
            (Some(b), _) => b.verif_executor_stats(),
            (_, Some(b)) => b.verif_executor_stats(),
            _ => unreachable!(),
        };
        if s.ready_len != 0 || s.spawn_len != 0 || s.requests_len != 0 || s.events_len != 0 {
            out.anomalies.push(format!(
                "core not quiescent when the bridge call returned: ready={} spawn={} effects={} events={}",
                s.ready_len, s.spawn_len, s.requests_len, s.events_len
            ));
        }
    }
}

impl<A: LabApp> Host for BridgeHost<A>
where
    A::Effect: LabEffect,
{
    fn name(&self) -> &'static str {
        if self.bincode.is_some() {
            "BridgeBincode"
        } else {
            "BridgeJson"
        }
    }
    fn caps(&self) -> Caps {
        Caps {
            drop: false,
            reresolve: false,
            resolve_never_twice: false,
            abort_before_start: false,
            done: false,
            command_api: true,
            extend: false,
            batch: 0,
            order_twin: true,
        }
    }
    fn keys(&self) -> Vec<(Key, u8)> {
        let mut v: Vec<(Key, u8)> = self.ids.iter().map(|(k, (_, kind))| (*k, *kind)).collect();
        v.sort();
        v
    }
    fn start(&mut self, program: &Cmd) -> Obs {
        let mut out = Obs::default();
        let r = self.send_event(&if self.legacy {
            Event::StartLegacy(Box::new(program.clone()))
        } else {
            Event::Start(Box::new(program.clone()))
        });
        self.observe(r, &mut out);
        out
    }
    fn act(&mut self, action: &Action) -> Obs {
        let mut out = Obs::default();
        let r = match action {
            Action::Resolve { site, arg, val } => {
                let (id, kind) = *self.ids.get(&(*site, *arg)).expect("id in table");
                let r = self.respond(id, kind, *val);
                out.resolve_ok = Some(r.is_ok());
                if kind != KIND_MANY {
                    // one-shot ids are no longer outstanding after a response (and the entry of
                    // a notification is removed by the failed attempt)
                    self.ids.remove(&(*site, *arg));
                }
                match r {
                    Ok(v) => Ok(v),
                    Err(e)
                        if e.contains("could not process response") =>
                    {
                        // a rejected resolution is an error value, not a failure of the call
                        Ok(vec![])
                    }
                    Err(e) => Err(e),
                }
            }
            Action::DropReq { .. } => unreachable!("the bridge cannot drop a request"),
            Action::Abort { handle } => {
                if !call_abort(*handle) {
                    out.anomalies.push(format!("abort handle {handle} not registered"));
                }
                self.send_event(&Event::Noop)
            }
            Action::Noop => {
                self.noops += 1;
                // (byte-wise through erased serde this costs ~0.1 s: one no-op probe in 1500, counted
                // over the whole process)
                static PROBES: std::sync::atomic::AtomicU64 = std::sync::atomic::AtomicU64::new(0);
                let n = PROBES.fetch_add(1, Ordering::Relaxed);
                if n % 1500 == 700 {
                    // a message of more than 1 MiB: the bridge has no size limit of its own
                    let n = (1 << 20) + 17 + (n as usize / 1500 % 3) * 300_000;
                    LARGE_EVENTS.fetch_add(1, Ordering::Relaxed);
                    self.send_event(&Event::Pad(vec![0xAB; n]))
                } else {
                    self.send_event(&Event::Noop)
                }
            }
            Action::Extend(_) | Action::Batch(_) => unreachable!("not available over the bridge"),
        };
        self.observe(r, &mut out);
        out
    }
}
