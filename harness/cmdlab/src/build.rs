//! AST -> real crux `Command`s (public API only), the script interpreter and the
//! legacy-capability runner.

use std::future::Future;
use std::pin::Pin;
use std::task::{Context, Poll};

use crux_core::capability::CapabilityContext;
use crux_core::command::{CommandContext, RequestBuilder, StreamBuilder};
use crux_core::Command;
use futures::future::BoxFuture;
use futures::stream::{BoxStream, FuturesUnordered};
use futures::{FutureExt, StreamExt};

use crate::ast::*;
use crate::ops::*;

/// value transformation applied by `map(k)` stages; shared with the model
pub fn mix(v: u64, k: u8) -> u64 {
    v.wrapping_mul(31).wrapping_add(k as u64 + 1)
}

type Rb<Ef> = RequestBuilder<Ef, Event, BoxFuture<'static, u64>>;
type Sb<Ef> = StreamBuilder<Ef, Event, BoxStream<'static, u64>>;

fn rbox<Ef, T>(b: RequestBuilder<Ef, Event, T>) -> Rb<Ef>
where
    Ef: LabEffect,
    T: Future<Output = u64> + Send + 'static,
{
    RequestBuilder::new(move |ctx| b.into_future(ctx).boxed())
}

fn sbox<Ef, T>(b: StreamBuilder<Ef, Event, T>) -> Sb<Ef>
where
    Ef: LabEffect,
    T: futures::Stream<Item = u64> + Send + 'static,
{
    StreamBuilder::new(move |ctx| b.into_stream(ctx).boxed())
}

fn op(site: u32, arg: u64, kind: u8) -> Op {
    Op {
        site,
        arg,
        kind,
        trail: vec![],
    }
}

enum B<Ef> {
    R(Rb<Ef>),
    S(Sb<Ef>),
}

fn build_chain<Ef: LabEffect>(chain: &Chain, tag: u32) -> Command<Ef, Event> {
    let mut b: B<Ef> = match chain.head {
        Head::Request(site) => B::R(rbox(Command::request_from_shell(op(site, 0, KIND_ONCE)).map(|v: Val| v.0))),
        Head::Stream(site) => B::S(sbox(Command::stream_from_shell(op(site, 0, KIND_MANY)).map(|v: Val| v.0))),
    };
    for stage in &chain.stages {
        b = match (b, stage) {
            (B::R(r), Stage::Map(k)) => {
                let k = *k;
                B::R(rbox(r.map(move |v| mix(v, k))))
            }
            (B::R(r), Stage::ThenRequest(site)) => {
                let site = *site;
                B::R(rbox(r.then_request(move |v| {
                    Command::request_from_shell(op(site, v, KIND_ONCE)).map(|v: Val| v.0)
                })))
            }
            (B::R(r), Stage::ThenStream(site)) => {
                let site = *site;
                B::S(sbox(r.then_stream(move |v| {
                    Command::stream_from_shell(op(site, v, KIND_MANY)).map(|v: Val| v.0)
                })))
            }
            (B::S(s), Stage::Map(k)) => {
                let k = *k;
                B::S(sbox(s.map(move |v| mix(v, k))))
            }
            (B::S(s), Stage::ThenRequest(site)) => {
                let site = *site;
                B::S(sbox(s.then_request(move |v| {
                    Command::request_from_shell(op(site, v, KIND_ONCE)).map(|v: Val| v.0)
                })))
            }
            (B::S(s), Stage::ThenStream(site)) => {
                let site = *site;
                B::S(sbox(s.then_stream(move |v| {
                    Command::stream_from_shell(op(site, v, KIND_MANY)).map(|v: Val| v.0)
                })))
            }
        };
    }
    let ev = move |v: u64| Event::Out {
        tag,
        val: v,
        trail: vec![],
        then: None,
    };
    match b {
        B::R(r) => r.then_send(ev),
        B::S(s) => s.then_send(ev),
    }
}

pub fn build<Ef: LabEffect>(cmd: &Cmd) -> Command<Ef, Event> {
    match cmd {
        Cmd::Done => Command::done(),
        Cmd::Event(tag, then) => Command::event(Event::Out {
            tag: *tag,
            val: 0,
            trail: vec![],
            then: then.clone(),
        }),
        Cmd::Notify(site) => Command::notify_shell(Sig {
            site: *site,
            trail: vec![],
        })
        .into(),
        Cmd::Chain(chain, tag) => build_chain(chain, *tag),
        Cmd::Then(a, b) => build::<Ef>(a).then(build::<Ef>(b)),
        Cmd::And(a, b) => build::<Ef>(a).and(build::<Ef>(b)),
        Cmd::All(xs) => Command::all(xs.iter().map(build::<Ef>)),
        Cmd::Collect(xs) => xs.iter().map(build::<Ef>).collect(),
        // marker 0 is the identity mapping (neutral wrapper)
        Cmd::MapEvent(c, 0) => build::<Ef>(c).map_event(|e: Event| e),
        Cmd::MapEffect(c, 0) => build::<Ef>(c).map_effect(|e: Ef| e),
        Cmd::MapEvent(c, k) => {
            let k = *k;
            build::<Ef>(c).map_event(move |e: Event| e.push_trail(k))
        }
        Cmd::MapEffect(c, k) => {
            let k = *k;
            build::<Ef>(c).map_effect(move |e: Ef| e.push_trail(k))
        }
        Cmd::FromInto(c) => {
            // through a distinct pair of types and back
            let inner: Command<Wrapped<Ef>, WrappedEv> = build::<Ef>(c).into();
            Command::from(inner)
        }
        Cmd::Guarded(c, counter) => {
            let guard = HoldGuard::new(*counter);
            build::<Ef>(c).map_event(move |e: Event| {
                let _keep = &guard;
                e
            })
        }
        Cmd::Abortable(c, h) => {
            let built = build::<Ef>(c);
            let handle = built.abort_handle();
            register_abort(*h, Box::new(move || handle.abort()));
            built
        }
        Cmd::Async(script) => {
            let script = script.clone();
            match crate::ops::mixed_caps() {
                Some((op, sig)) => Command::new(move |ctx| run_script::<Ef>(Ctx::Mixed { cmd: ctx, op, sig }, script)),
                None => Command::new(move |ctx| run_script::<Ef>(Ctx::Cmd(ctx), script)),
            }
        }
    }
}

/// Newtypes for the `from`/`into` round trip
pub struct Wrapped<Ef>(Ef);
pub struct WrappedEv(Event);

impl<Ef> From<Ef> for Wrapped<Ef> {
    fn from(e: Ef) -> Self {
        Wrapped(e)
    }
}
impl From<Event> for WrappedEv {
    fn from(e: Event) -> Self {
        WrappedEv(e)
    }
}
impl From<WrappedEv> for Event {
    fn from(e: WrappedEv) -> Self {
        e.0
    }
}
// `From<Wrapped<Ef>> for Ef` is not allowed by coherence for a generic Ef, so the two
// concrete effect types get their own impls
impl From<Wrapped<m::Effect>> for m::Effect {
    fn from(e: Wrapped<m::Effect>) -> Self {
        e.0
    }
}
impl From<Wrapped<d::Effect>> for d::Effect {
    fn from(e: Wrapped<d::Effect>) -> Self {
        e.0
    }
}

// ---------------------------------------------------------------------------
// Script interpreter
// ---------------------------------------------------------------------------

pub enum Ctx<Ef> {
    Cmd(CommandContext<Ef, Event>),
    Legacy {
        op: CapabilityContext<Op, Event>,
        sig: CapabilityContext<Sig, Event>,
    },
    /// a Command task (spawn, events, join handles through the command context) whose shell
    /// requests go through the capability contexts
    Mixed {
        cmd: CommandContext<Ef, Event>,
        op: CapabilityContext<Op, Event>,
        sig: CapabilityContext<Sig, Event>,
    },
}

impl<Ef> Clone for Ctx<Ef> {
    fn clone(&self) -> Self {
        match self {
            Ctx::Cmd(c) => Ctx::Cmd(c.clone()),
            Ctx::Legacy { op, sig } => Ctx::Legacy {
                op: op.clone(),
                sig: sig.clone(),
            },
            Ctx::Mixed { cmd, op, sig } => Ctx::Mixed {
                cmd: cmd.clone(),
                op: op.clone(),
                sig: sig.clone(),
            },
        }
    }
}

pub struct Handle {
    abort: Box<dyn Fn() + Send + Sync>,
    join: Box<dyn Fn() -> BoxFuture<'static, ()> + Send + Sync>,
}

impl<Ef: LabEffect> Ctx<Ef> {
    fn request(&self, op: Op) -> BoxFuture<'static, u64> {
        let (site, arg, kind) = (op.site, op.arg, op.kind);
        let inner = self.request_inner(op);
        if !crate::ops::FREE_LOG_ON.load(std::sync::atomic::Ordering::Relaxed) {
            return inner;
        }
        // the API sends a request when its future is first polled
        let mut inner = inner;
        let mut logged = false;
        futures::future::poll_fn(move |cx| {
            if !logged {
                logged = true;
                crate::ops::log_request(site, arg, kind);
            }
            inner.poll_unpin(cx)
        })
        .boxed()
    }

    fn request_inner(&self, op: Op) -> BoxFuture<'static, u64> {
        if crate::probe::on() {
            return crate::probe::Probe::new(self.request_plain(op)).boxed();
        }
        self.request_plain(op)
    }

    fn request_plain(&self, op: Op) -> BoxFuture<'static, u64> {
        match self {
            Ctx::Cmd(c) => c.request_from_shell(op).map(|v| v.0).boxed(),
            Ctx::Legacy { op: c, .. } | Ctx::Mixed { op: c, .. } => c.request_from_shell(op).map(|v| v.0).boxed(),
        }
    }

    fn stream(&self, op: Op) -> BoxStream<'static, u64> {
        let (site, arg, kind) = (op.site, op.arg, op.kind);
        let inner = self.stream_inner(op);
        if !crate::ops::FREE_LOG_ON.load(std::sync::atomic::Ordering::Relaxed) {
            return inner;
        }
        let mut inner = inner;
        let mut logged = false;
        futures::stream::poll_fn(move |cx| {
            if !logged {
                logged = true;
                crate::ops::log_request(site, arg, kind);
            }
            inner.poll_next_unpin(cx)
        })
        .boxed()
    }

    fn stream_inner(&self, op: Op) -> BoxStream<'static, u64> {
        if crate::probe::on() {
            return crate::probe::Probe::new(self.stream_plain(op)).boxed();
        }
        self.stream_plain(op)
    }

    fn stream_plain(&self, op: Op) -> BoxStream<'static, u64> {
        match self {
            Ctx::Cmd(c) => c.stream_from_shell(op).map(|v| v.0).boxed(),
            Ctx::Legacy { op: c, .. } | Ctx::Mixed { op: c, .. } => c.stream_from_shell(op).map(|v| v.0).boxed(),
        }
    }

    async fn notify(&self, sig: Sig) {
        crate::ops::log_request(sig.site, 0, KIND_NEVER);
        match self {
            Ctx::Cmd(c) => c.notify_shell(sig),
            Ctx::Legacy { sig: c, .. } | Ctx::Mixed { sig: c, .. } => c.notify_shell(sig).await,
        }
    }

    fn emit(&self, ev: Event) {
        crate::ops::log_emission(&ev);
        match self {
            Ctx::Cmd(c) | Ctx::Mixed { cmd: c, .. } => c.send_event(ev),
            Ctx::Legacy { op, .. } => op.update_app(ev),
        }
    }

    fn spawn(&self, script: Script, tx: Option<Tx>) -> Handle {
        match self {
            Ctx::Cmd(c) | Ctx::Mixed { cmd: c, .. } => {
                let me = self.clone();
                let h = c.spawn(move |ctx| {
                    let inner = match me {
                        Ctx::Mixed { op, sig, .. } => Ctx::Mixed { cmd: ctx, op, sig },
                        _ => Ctx::Cmd(ctx),
                    };
                    run_script_with::<Ef>(inner, script, tx)
                });
                let h2 = h.clone();
                Handle {
                    abort: Box::new(move || h2.abort()),
                    join: Box::new(move || h.clone().boxed()),
                }
            }
            Ctx::Legacy { op, .. } => {
                // the legacy API has no join handles: completion is signalled through a
                // shared future, abort is not available (never generated)
                let me = self.clone();
                let pipe = tx;
                let (tx, rx) = futures::channel::oneshot::channel::<()>();
                let rx = rx.map(|_| ()).shared();
                op.spawn(async move {
                    run_script_with::<Ef>(me, script, pipe).await;
                    let _ = tx.send(());
                });
                Handle {
                    abort: Box::new(|| panic!("abort is not available through the legacy API")),
                    join: Box::new(move || rx.clone().boxed()),
                }
            }
        }
    }
}

struct YieldN {
    n: u8,
    drop_waker: bool,
}

impl Future for YieldN {
    type Output = ();
    fn poll(mut self: Pin<&mut Self>, cx: &mut Context<'_>) -> Poll<()> {
        if self.n == 0 {
            Poll::Ready(())
        } else {
            self.n -= 1;
            if self.drop_waker {
                // wake, then drop the only extra copy of the waker
                cx.waker().clone().wake();
            } else {
                cx.waker().wake_by_ref();
            }
            Poll::Pending
        }
    }
}

type Tx = futures::channel::mpsc::UnboundedSender<u64>;

pub fn run_script<Ef: LabEffect>(ctx: Ctx<Ef>, script: Script) -> BoxFuture<'static, ()> {
    run_script_with(ctx, script, None)
}

pub fn run_script_with<Ef: LabEffect>(ctx: Ctx<Ef>, script: Script, tx: Option<Tx>) -> BoxFuture<'static, ()> {
    async move {
        let mut regs: Vec<u64> = Vec::new();
        let mut streams: Vec<Option<BoxStream<'static, u64>>> = Vec::new();
        let mut handles: Vec<Handle> = Vec::new();
        let mut holds: Vec<HoldGuard> = Vec::new();
        for instr in script.instrs {
            match instr {
                Instr::Req { site, arg } => {
                    let a = arg.map(|r| regs[r]).unwrap_or(0);
                    let v = ctx.request(op(site, a, KIND_ONCE)).await;
                    regs.push(v);
                }
                Instr::Open { site } => {
                    streams.push(Some(ctx.stream(op(site, 0, KIND_MANY))));
                }
                Instr::Next { stream } => {
                    let v = match streams[stream].as_mut() {
                        Some(s) => s.next().await,
                        None => None,
                    };
                    if v.is_none() {
                        streams[stream] = None;
                    }
                    regs.push(v.unwrap_or(0));
                }
                Instr::Emit { tag, reg } => ctx.emit(Event::Out {
                    tag,
                    val: reg.map(|r| regs[r]).unwrap_or(0),
                    trail: vec![],
                    then: None,
                }),
                Instr::EmitThen { tag, cmd } => ctx.emit(Event::Out {
                    tag,
                    val: 0,
                    trail: vec![],
                    then: Some(cmd),
                }),
                Instr::Notify { site } => {
                    ctx.notify(Sig {
                        site,
                        trail: vec![],
                    })
                    .await
                }
                Instr::Spawn { script } => handles.push(ctx.spawn(script, None)),
                Instr::SpawnPipe { script } => {
                    let (ptx, prx) = futures::channel::mpsc::unbounded::<u64>();
                    handles.push(ctx.spawn(script, Some(ptx)));
                    streams.push(Some(prx.boxed()));
                }
                Instr::Send { reg } => {
                    if let Some(tx) = &tx {
                        // a closed channel (consumer gone) is not an error
                        let _ = tx.unbounded_send(reg.map(|r| regs[r]).unwrap_or(0));
                    }
                }
                Instr::Join { handle } => (handles[handle].join)().await,
                Instr::Abort { handle } => (handles[handle].abort)(),
                Instr::JoinAll { sites } => {
                    let futs: Vec<_> = sites
                        .iter()
                        .map(|s| ctx.request(op(*s, 0, KIND_ONCE)))
                        .collect();
                    let vs = futures::future::join_all(futs).await;
                    regs.extend(vs);
                }
                Instr::JoinMixed { sites, handles: hs } => {
                    let reqs: Vec<_> = sites
                        .iter()
                        .map(|s| ctx.request(op(*s, 0, KIND_ONCE)))
                        .collect();
                    let joins: Vec<_> = hs.iter().map(|h| (handles[*h].join)()).collect();
                    let (vs, _) = futures::future::join(futures::future::join_all(reqs), futures::future::join_all(joins)).await;
                    regs.extend(vs);
                }
                Instr::Select { sites } => {
                    let futs: Vec<_> = sites
                        .iter()
                        .map(|s| ctx.request(op(*s, 0, KIND_ONCE)))
                        .collect();
                    let (v, _idx, rest) = futures::future::select_all(futs).await;
                    drop(rest);
                    regs.push(v);
                }
                Instr::Yield { n, drop_waker } => YieldN { n, drop_waker }.await,
                Instr::Hold { counter } => holds.push(HoldGuard::new(counter)),
                Instr::Abandon { site } => drop(ctx.request(op(site, 0, KIND_ONCE))),
                Instr::AbortCmd { handle } => {
                    crate::ops::call_abort(handle);
                }
                Instr::JoinAllUnordered { sites } => {
                    let mut fu = FuturesUnordered::new();
                    for s in &sites {
                        fu.push(ctx.request(op(*s, 0, KIND_ONCE)));
                    }
                    while let Some(v) = fu.next().await {
                        regs.push(v);
                    }
                }
            }
        }
        drop(holds);
    }
    .boxed()
}

/// Run a program through the legacy capability API: only `Async` scripts and
/// `All` / `And` of them are meaningful there (each becomes a spawned task).
pub fn start_legacy(cmd: &Cmd, caps: &d::Capabilities) {
    match cmd {
        Cmd::Async(script) => {
            let ctx: Ctx<d::Effect> = Ctx::Legacy {
                op: caps.op.context.clone(),
                sig: caps.sig.context.clone(),
            };
            caps.op.context.spawn(run_script::<d::Effect>(ctx, script.clone()));
        }
        Cmd::All(xs) | Cmd::Collect(xs) => xs.iter().for_each(|x| start_legacy(x, caps)),
        Cmd::And(a, b) => {
            start_legacy(a, caps);
            start_legacy(b, caps);
        }
        Cmd::MapEvent(inner, k) => {
            // a child capability built inside `update` and dropped again once its tasks are
            // spawned (the composition pattern of the capability API)
            use crux_core::capability::Capability as _;
            let k = *k;
            let child = d::Capabilities {
                op: caps.op.map_event(move |e: Event| if k == 0 { e } else { e.push_trail(k) }),
                sig: caps.sig.map_event(move |e: Event| if k == 0 { e } else { e.push_trail(k) }),
            };
            start_legacy(inner, &child);
        }
        Cmd::Done => {}
        other => panic!("program not expressible through the legacy API: {other:?}"),
    }
}
