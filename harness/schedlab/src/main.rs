//! C08: several threads calling into one Core. Forced single-preemption schedules at the
//! crux_verif hook points, randomised schedules, and plain stress (the latter also under
//! ThreadSanitizer / Miri). The oracle is the cmdlab reference model: the concurrent
//! operations are chosen so that they commute in the model, hence the union of what the
//! calls returned, the final log and the final state must equal the model's, whatever
//! the interleaving.

use std::cell::{Cell, RefCell};
use std::collections::{BTreeMap, HashMap};
use std::sync::atomic::{AtomicU8, Ordering};
use std::sync::{Arc, Condvar, Mutex};
use std::time::Duration;

use cmdlab::ast::*;
use cmdlab::gen::{Gen, GenCfg};
use cmdlab::hosts::{BridgeHost, CoreHost, FfiRequest, Host, LabApp, Obs, ReqObj, Wire};
use cmdlab::lab::compare;
use cmdlab::model::{EffObs, EvObs, Expect, Key, Mode, Model, Pred};
use cmdlab::ops::{AppD, AppM, Event, LabEffect, Logged, Split};
use crux_core::Core;
use serde::Serialize;
use serde_json::{json, Value};
use vcommon::{hash_json, hash_mix, Args, Report, Rng, Watchdog};

// ---------------------------------------------------------------------------
// Controller
// ---------------------------------------------------------------------------

const M_OFF: u8 = 0;
const M_RECORD: u8 = 1;
const M_FORCE: u8 = 2;
const M_RANDOM: u8 = 3;

static MODE: AtomicU8 = AtomicU8::new(M_OFF);

thread_local! {
    static ROLE: Cell<u8> = const { Cell::new(0) };
    static TRNG: RefCell<Option<Rng>> = const { RefCell::new(None) };
    static LOCAL_HITS: RefCell<HashMap<&'static str, u64>> = RefCell::new(HashMap::new());
}

static ALL_HITS: Mutex<Option<HashMap<&'static str, u64>>> = Mutex::new(None);

fn merge_thread_hits() {
    LOCAL_HITS.with(|h| {
        let mut g = ALL_HITS.lock().unwrap();
        let all = g.get_or_insert_with(HashMap::new);
        for (k, v) in h.borrow_mut().drain() {
            *all.entry(k).or_insert(0) += v;
        }
    });
}

#[derive(Default)]
struct St {
    // record
    hits: Vec<&'static str>,
    // force: up to two held threads
    slots: [Slot; 2],
    spin: usize,
    peer_releases: u64,
    // order of (role, point) hits in forced mode, hashed
    trace: u64,
}

#[derive(Default, Clone, Copy)]
struct Slot {
    role: u8,
    at: usize,
    count: usize,
    paused: bool,
    point: Option<&'static str>,
    release: bool,
}

struct Ctl {
    st: Mutex<St>,
    cv: Condvar,
}

static CTL: std::sync::LazyLock<Ctl> = std::sync::LazyLock::new(|| Ctl {
    st: Mutex::new(St::default()),
    cv: Condvar::new(),
});

const SPIN_LIMIT: usize = 200;

fn on_point(name: &'static str) {
    let role = ROLE.with(|r| r.get());
    if role == 0 {
        return;
    }
    LOCAL_HITS.with(|h| *h.borrow_mut().entry(name).or_insert(0) += 1);
    match MODE.load(Ordering::Relaxed) {
        M_RECORD => {
            CTL.st.lock().unwrap().hits.push(name);
        }
        M_FORCE => {
            let mut st = CTL.st.lock().unwrap();
            st.trace = hash_mix(st.trace, vcommon::fnv64(name.as_bytes()) ^ role as u64);
            if let Some(i) = st.slots.iter().position(|s| s.role == role) {
                st.slots[i].count += 1;
                if st.slots[i].count == st.slots[i].at && !st.slots[i].release {
                    st.slots[i].paused = true;
                    st.slots[i].point = Some(name);
                    CTL.cv.notify_all();
                    while !st.slots[i].release {
                        st = CTL.cv.wait(st).unwrap();
                    }
                    st.slots[i].paused = false;
                    return;
                }
            }
            let other_paused = st.slots.iter().any(|s| s.role != role && s.paused);
            if other_paused {
                // this thread runs while another is held: if it only spins on the task the held
                // thread owns (the executor's documented busy-wait), let the held thread go
                if name == "qe.unavailable" {
                    st.spin += 1;
                    if st.spin > SPIN_LIMIT {
                        for s in st.slots.iter_mut() {
                            if s.role != role && s.paused {
                                s.release = true;
                            }
                        }
                        st.peer_releases += 1;
                        CTL.cv.notify_all();
                    }
                } else if name != "qe.ready_recv" {
                    st.spin = 0;
                }
            }
        }
        M_RANDOM => {
            let action = TRNG.with(|r| {
                let mut r = r.borrow_mut();
                match r.as_mut() {
                    Some(rng) => rng.below(64),
                    None => 63,
                }
            });
            match action {
                0..=15 => std::thread::yield_now(),
                16..=19 => {
                    for _ in 0..(action * 40) {
                        std::hint::spin_loop();
                    }
                }
                20 => std::thread::sleep(Duration::from_micros(30)),
                _ => {}
            }
        }
        _ => {}
    }
}

fn flush_local_hits(report: &mut Report) {
    merge_thread_hits();
    if let Some(all) = ALL_HITS.lock().unwrap().take() {
        for (k, v) in all {
            report.count(&format!("hook_hits.{k}"), v);
        }
    }
}

// ---------------------------------------------------------------------------
// Scenario
// ---------------------------------------------------------------------------

#[derive(Clone, Debug, Serialize)]
enum ConcOp {
    Act(Action),
    Start(Cmd),
    View,
}

#[derive(Clone, Debug, Serialize)]
struct Scenario {
    /// run through the serialized bridge: 0 = typed core, 1 = bincode, 2 = JSON
    bridge: u8,
    legacy: bool,
    derive_app: bool,
    /// requests and streams of script tasks are polled through the foreign-waker adapter
    /// (cmdlab::probe): every waker registration and wake-up is a schedule point
    probe: bool,
    program: Cmd,
    prefix: Vec<Action>,
    ops: Vec<ConcOp>,
}

/// What the model says the concurrent phase must produce, independent of the order
struct Expected {
    /// no single expectation exists (the operations do not commute: an abort races with work of
    /// the command it aborts); only the model-free monitors apply
    free: bool,
    effects: Vec<EffObs>,
    events: Vec<EvObs>,
    per_task: Option<BTreeMap<usize, Vec<EvObs>>>,
    resolve: Vec<Option<Expect>>,
}

fn apply_op(model: &mut Model, op: &ConcOp) -> Pred {
    match op {
        ConcOp::Act(a) => model.act(a),
        ConcOp::Start(c) => model.start(c),
        ConcOp::View => Pred::default(),
    }
}

fn summarize(model: &Model) -> Value {
    // the complete state, hidden parts (registers, buffered items) included: operations only
    // commute if no later behaviour can tell the orders apart
    json!(model.fingerprint())
}

fn permutations(n: usize) -> Vec<Vec<usize>> {
    fn go(cur: &mut Vec<usize>, used: &mut Vec<bool>, n: usize, out: &mut Vec<Vec<usize>>) {
        if cur.len() == n {
            out.push(cur.clone());
            return;
        }
        for i in 0..n {
            if !used[i] {
                used[i] = true;
                cur.push(i);
                go(cur, used, n, out);
                cur.pop();
                used[i] = false;
            }
        }
    }
    let mut out = vec![];
    go(&mut vec![], &mut vec![false; n], n, &mut out);
    out
}

/// The operations commute in the model iff every order gives the same union of outputs,
/// the same per-op resolve verdicts and the same final state.
fn commuting_expectation(model: &Model, ops: &[ConcOp]) -> Option<Expected> {
    let mut reference: Option<(Vec<EffObs>, Vec<EvObs>, Vec<Option<Expect>>, Value)> = None;
    let mut per_task_ref: Option<BTreeMap<usize, Vec<EvObs>>> = None;
    let mut order_stable = true;
    for perm in permutations(ops.len()) {
        let mut m = model.clone();
        let mut effects = vec![];
        let mut events = vec![];
        let mut per_task: BTreeMap<usize, Vec<EvObs>> = BTreeMap::new();
        let mut resolve = vec![None; ops.len()];
        for i in &perm {
            let p = apply_op(&mut m, &ops[*i]);
            effects.extend(p.effects);
            for (g, e) in p.events {
                per_task.entry(g).or_default().push(e.clone());
                events.push(e);
            }
            resolve[*i] = p.resolve;
            if m.has_zombies() {
                // the time at which cancelled work is swept is unspecified: keep away
                return None;
            }
        }
        effects.sort();
        events.sort();
        let state = summarize(&m);
        match &reference {
            None => {
                reference = Some((effects, events, resolve, state));
                per_task_ref = Some(per_task);
            }
            Some((e, v, r, s)) => {
                if *e != effects || *v != events || *r != resolve || *s != state {
                    return None;
                }
                if per_task_ref.as_ref() != Some(&per_task) {
                    order_stable = false;
                }
            }
        }
    }
    let (effects, events, resolve, _) = reference?;
    Some(Expected {
        free: false,
        effects,
        events,
        per_task: if order_stable { per_task_ref } else { None },
        resolve,
    })
}

/// Abort races: a thread aborts a command (from inside `update`, or through the handle followed
/// by a call) while another thread resolves a request of that command whose task then emits a
/// burst of events. The orders do not commute (all of the burst, or none of it), so there is no
/// single expectation; what must hold in every interleaving is conservation: whatever a task
/// did emit is applied exactly once, in emission order, and after every call has returned the
/// aborted command never runs again.
fn gen_abort_race(rng: &mut Rng, n_ops: usize) -> (Scenario, Model, Expected) {
    let derive_app = rng.chance(1, 3);
    let mut instrs = vec![];
    let stream = rng.chance(1, 2);
    if stream {
        instrs.push(Instr::Open { site: 1 });
        for r in 0..rng.range(2, 4) as u32 {
            instrs.push(Instr::Next { stream: 0 });
            for i in 0..rng.range(2, 5) as u32 {
                instrs.push(Instr::Emit { tag: 100 + r * 10 + i, reg: Some(r as usize) });
                if rng.chance(1, 5) {
                    instrs.push(Instr::Notify { site: 300 + r * 10 + i });
                }
            }
        }
    } else {
        instrs.push(Instr::Req { site: 1, arg: None });
        for i in 0..rng.range(2, 8) as u32 {
            instrs.push(Instr::Emit { tag: 100 + i, reg: Some(0) });
            if rng.chance(1, 5) {
                instrs.push(Instr::Notify { site: 300 + i });
            }
        }
    }
    instrs.push(Instr::Req { site: 2, arg: None });
    instrs.push(Instr::Emit { tag: 199, reg: None });
    let wrap = |c: Cmd, rng: &mut Rng, base: u32| -> Cmd {
        let mut c = c;
        for layer in 0..rng.below(3) {
            c = match rng.below(5) {
                0 => Cmd::MapEvent(Box::new(c), 0),
                1 => Cmd::All(vec![c, Cmd::Notify(base + layer as u32)]),
                2 => Cmd::Then(Box::new(Cmd::Done), Box::new(c)),
                3 => Cmd::And(Box::new(c), Box::new(Cmd::Done)),
                _ => Cmd::MapEffect(Box::new(c), 0),
            };
        }
        c
    };
    let inner = wrap(Cmd::Async(Script { instrs }), rng, 60);
    let abortable = wrap(Cmd::Abortable(Box::new(inner), 1), rng, 64);
    let sibling = Cmd::Async(Script {
        instrs: vec![
            Instr::Req { site: 70, arg: None },
            Instr::Emit { tag: 7000, reg: Some(0) },
            Instr::Emit { tag: 7001, reg: Some(0) },
            Instr::Req { site: 71, arg: None },
        ],
    });
    let with_sibling = rng.chance(2, 3);
    let program = if !with_sibling {
        abortable
    } else if rng.chance(1, 2) {
        Cmd::And(Box::new(abortable), Box::new(sibling))
    } else {
        Cmd::All(vec![sibling, abortable])
    };
    let mut model = Model::new(Mode::CORE);
    model.start(&program);
    let mut prefix = vec![];
    if stream && rng.chance(1, 2) {
        let a = Action::Resolve { site: 1, arg: 0, val: 501 };
        model.act(&a);
        prefix.push(a);
    }
    let mut ops = vec![
        ConcOp::Act(Action::Resolve { site: 1, arg: 0, val: 601 }),
        ConcOp::Act(Action::Abort { handle: 1 }),
    ];
    if n_ops > 2 && with_sibling {
        ops.push(ConcOp::Act(Action::Resolve { site: 70, arg: 0, val: 602 }));
    } else if n_ops > 2 {
        ops.push(ConcOp::View);
    }
    if rng.chance(1, 2) {
        ops.swap(0, 1);
    }
    let scn = Scenario {
        bridge: 0,
        legacy: false,
        derive_app,
        probe: rng.chance(1, 3),
        program,
        prefix,
        ops,
    };
    let exp = Expected {
        free: true,
        effects: vec![],
        events: vec![],
        per_task: None,
        resolve: vec![],
    };
    (scn, model, exp)
}

/// One live subscription made through the *capability* API, its items delivered by several
/// threads at once over a bridge (ids, unlike typed request objects, can be shared between
/// threads). The items carry the same value, so every order of the deliveries is the same
/// sequential history: each delivery hands the consumer one item, which it reports with its
/// next event. An item left in the channel without a wake-up shows as a lost event.
fn gen_legacy_stream(rng: &mut Rng, n_ops: usize) -> Option<(Scenario, Model, Expected)> {
    let bridge = rng.range(1, 2) as u8;
    let n_streams = rng.range(1, 2) as u32;
    let mut instrs = vec![];
    for s in 0..n_streams {
        instrs.push(Instr::Open { site: 1 + s });
    }
    let rounds = n_ops as u32 + rng.range(1, 3) as u32;
    let mut reg = 0usize;
    for i in 0..rounds {
        for s in 0..n_streams {
            instrs.push(Instr::Next { stream: s as usize });
            instrs.push(Instr::Emit { tag: 10 + 10 * s + i, reg: Some(reg) });
            reg += 1;
            if rng.chance(1, 6) {
                instrs.push(Instr::Notify { site: 300 + 10 * s + i });
            }
        }
    }
    instrs.push(Instr::Req { site: 50, arg: None });
    let mut program = Cmd::Async(Script { instrs });
    if rng.chance(1, 3) {
        let sibling = Cmd::Async(Script {
            instrs: vec![Instr::Req { site: 70, arg: None }, Instr::Emit { tag: 7000, reg: Some(0) }],
        });
        program = Cmd::And(Box::new(program), Box::new(sibling));
    }
    let mut model = Model::new(Mode::LEGACY);
    model.start(&program);
    // the same value everywhere: the order in which the deliveries land is not observable
    let val = 777u64;
    let mut prefix = vec![];
    // (a subscription is requested when the consumer first waits for it)
    let open_streams = |m: &Model| -> Vec<u32> {
        let mut v: Vec<u32> = m.outstanding().into_iter().filter(|o| o.kind == KIND_MANY && o.receiver_alive).map(|o| o.key.0).collect();
        v.sort();
        v
    };
    for _ in 0..rng.below(3) {
        for site in open_streams(&model) {
            let a = Action::Resolve { site, arg: 0, val };
            model.act(&a);
            prefix.push(a);
        }
    }
    let sites = open_streams(&model);
    if sites.is_empty() {
        return None;
    }
    let mut ops: Vec<ConcOp> = vec![];
    for i in 0..n_ops {
        let site = sites[i % sites.len()];
        if i >= 2 && rng.chance(1, 3) {
            ops.push(if rng.chance(1, 2) { ConcOp::View } else { ConcOp::Act(Action::Noop) });
        } else {
            ops.push(ConcOp::Act(Action::Resolve { site, arg: 0, val }));
        }
    }
    let exp = commuting_expectation(&model, &ops)?;
    let scn = Scenario {
        bridge,
        legacy: true,
        derive_app: true,
        probe: rng.chance(2, 3),
        program,
        prefix,
        ops,
    };
    Some((scn, model, exp))
}

/// `--families events`: only the scenario families about event delivery (bursts of events and
/// abort races), used by the C03 lane
static EVENTS_ONLY: std::sync::atomic::AtomicBool = std::sync::atomic::AtomicBool::new(false);

fn gen_scenario(rng: &mut Rng, thorough: bool, n_ops: usize) -> Option<(Scenario, Model, Expected)> {
    let events_only = EVENTS_ONLY.load(Ordering::Relaxed);
    if rng.chance(1, if events_only { 3 } else { 7 }) {
        return Some(gen_abort_race(rng, n_ops));
    }
    if !events_only && rng.chance(1, 9) {
        return gen_legacy_stream(rng, n_ops);
    }
    let bridge: u8 = if rng.chance(1, 4) { rng.range(1, 2) as u8 } else { 0 };
    let legacy = bridge == 0 && rng.chance(1, 4);
    let derive_app = legacy || rng.chance(1, 3);
    let mut cfg = if thorough { GenCfg::thorough() } else { GenCfg::quick() };
    cfg.max_nodes = cfg.max_nodes.min(16);
    cfg.legacy = legacy;
    cfg.abortable = false;
    cfg.task_abort = false;
    cfg.event_then = true;
    cfg.script_weight = 20;
    let burst = events_only || rng.chance(1, 4);
    let join_family = !burst && rng.chance(1, 5);
    // over the bridge several threads may answer the *same* stream id at once (ids, unlike typed
    // request objects, can be shared): builder-chain subscriptions keep no state between items,
    // so two items commute up to the order of their events
    let stream_family = bridge != 0 && !burst && !join_family && rng.chance(1, 2);
    let program = if stream_family {
        let k = rng.range(1, 2) as u32;
        let mut parts: Vec<Cmd> = (1..=k)
            .map(|i| {
                let c = Cmd::Chain(Chain { head: Head::Stream(i), stages: vec![] }, 10 * i);
                if rng.chance(1, 3) { Cmd::MapEvent(Box::new(c), 3) } else { c }
            })
            .collect();
        if rng.chance(1, 2) {
            parts.push(Cmd::Async(Script { instrs: vec![Instr::Req { site: 40, arg: None }, Instr::Emit { tag: 41, reg: Some(0) }] }));
        }
        if parts.len() == 1 { parts.pop().unwrap() } else { Cmd::All(parts) }
    } else if join_family {
        // a task waiting on several requests at once (join / select), possibly inside wrappers:
        // resolving two of them from two threads is where a task's last waker changes hands
        let k = rng.range(2, 3) as u32;
        let sites: Vec<u32> = (1..=k).collect();
        let mut instrs = vec![];
        if rng.chance(1, 2) {
            instrs.push(Instr::Emit { tag: 90, reg: None });
        }
        instrs.push(if rng.chance(3, 4) { Instr::JoinAll { sites } } else { Instr::Select { sites } });
        instrs.push(Instr::Emit { tag: 91, reg: Some(0) });
        instrs.push(Instr::Req { site: 50, arg: None });
        let mut c = Cmd::Async(Script { instrs });
        for layer in 0..rng.below(3) {
            c = match rng.below(4) {
                0 => Cmd::MapEvent(Box::new(c), 9),
                1 => Cmd::All(vec![c, Cmd::Notify(60 + layer as u32)]),
                2 => Cmd::Then(Box::new(Cmd::Done), Box::new(c)),
                _ => Cmd::MapEffect(Box::new(c), 11),
            };
        }
        if legacy {
            // the legacy API runs scripts only
            match c {
                Cmd::Async(_) => c,
                _ => Cmd::Async(Script { instrs: vec![Instr::JoinAll { sites: vec![1, 2] }, Instr::Emit { tag: 91, reg: Some(0) }, Instr::Req { site: 50, arg: None }] }),
            }
        } else {
            c
        }
    } else if burst {
        // a task that emits a burst of events (some of which start follow-up programs) right
        // after a request, so that several threads find events to apply at the same time
        let n = rng.range(3, 9);
        let mut instrs = vec![Instr::Req { site: 1, arg: None }];
        for i in 0..n {
            if !legacy && rng.chance(1, 4) {
                instrs.push(Instr::EmitThen {
                    tag: 100 + i as u32,
                    cmd: Box::new(Cmd::Event(200 + i as u32, None)),
                });
            } else {
                instrs.push(Instr::Emit {
                    tag: 100 + i as u32,
                    reg: Some(0),
                });
            }
            if rng.chance(1, 3) {
                instrs.push(Instr::Notify { site: 300 + i as u32 });
            }
        }
        instrs.push(Instr::Req { site: 2, arg: None });
        Cmd::Async(Script { instrs })
    } else {
        Gen::new(rng, cfg.clone()).program()
    };
    let mode = if legacy { Mode::LEGACY } else { Mode::CORE };
    let mut model = Model::new(mode);
    model.start(&program);
    // sequential prefix: resolve a few things so that chains are mid-way
    let mut prefix = vec![];
    let mut val = 500u64;
    let n_prefix = rng.below(5) as usize;
    for _ in 0..n_prefix {
        let out: Vec<_> = model
            .outstanding()
            .into_iter()
            .filter(|o| o.receiver_alive && (o.kind == KIND_MANY || (o.kind == KIND_ONCE && !o.resolved_once)))
            .collect();
        if out.len() <= n_ops {
            break;
        }
        let o = rng.pick(&out).clone();
        val += 1;
        let a = Action::Resolve {
            site: o.key.0,
            arg: o.key.1,
            val,
        };
        model.act(&a);
        prefix.push(a);
    }
    // candidate concurrent operations
    for _attempt in 0..12 {
        let out = model.outstanding();
        let mut ops: Vec<ConcOp> = vec![];
        let mut used: Vec<Key> = vec![];
        for _ in 0..n_ops {
            let choice = if burst && !ops.is_empty() { rng.below(2) } else { rng.below(20) };
            let choice = if burst && ops.is_empty() { 10 } else { choice };
            let choice = if join_family && rng.chance(4, 5) { 10 } else { choice };
            let choice = if stream_family && rng.chance(5, 6) { 10 } else { choice };
            // over the bridges a view read races with the other calls more often (serialized views)
            let choice = if bridge != 0 && !ops.is_empty() && !ops.iter().any(|o| matches!(o, ConcOp::View)) && rng.chance(1, 4) { 0 } else { choice };
            let op = match choice {
                0 => Some(ConcOp::View),
                1 => Some(ConcOp::Act(Action::Noop)),
                2 | 3 => {
                    let mut c2 = cfg.clone();
                    c2.legacy = false;
                    c2.max_nodes = 6;
                    // sites of the second program must not collide with the first one's
                    let mut g = Gen::new(rng, c2);
                    g.offset_ids(10_000 + 1000 * ops.len() as u32);
                    Some(ConcOp::Start(g.program()))
                }
                _ => {
                    let cands: Vec<_> = out
                        .iter()
                        .filter(|o| !used.contains(&o.key) || o.kind == KIND_MANY)
                        .filter(|o| o.kind != KIND_NEVER || choice == 4)
                        // over the bridge an answered one-shot id is no longer outstanding
                        .filter(|o| bridge == 0 || !(o.kind == KIND_ONCE && o.resolved_once))
                        .collect();
                    if cands.is_empty() {
                        None
                    } else {
                        let o = *rng.pick(&cands);
                        used.push(o.key);
                        val += 1;
                        if !legacy && bridge == 0 && choice >= 17 {
                            Some(ConcOp::Act(Action::DropReq {
                                site: o.key.0,
                                arg: o.key.1,
                            }))
                        } else {
                            Some(ConcOp::Act(Action::Resolve {
                                site: o.key.0,
                                arg: o.key.1,
                                val,
                            }))
                        }
                    }
                }
            };
            if let Some(op) = op {
                ops.push(op);
            }
        }
        if ops.len() < 2 {
            continue;
        }
        // a request object can be used by one thread only: no two ops on one key
        let mut keys: Vec<Key> = vec![];
        let mut clash = false;
        for op in &ops {
            if let ConcOp::Act(Action::Resolve { site, arg, .. }) | ConcOp::Act(Action::DropReq { site, arg }) = op {
                let shared_stream_id = bridge != 0 && out.iter().any(|o| o.key == (*site, *arg) && o.kind == KIND_MANY);
                if keys.contains(&(*site, *arg)) && !shared_stream_id {
                    clash = true;
                }
                keys.push((*site, *arg));
            }
        }
        if clash {
            continue;
        }
        if let Some(exp) = commuting_expectation(&model, &ops) {
            let scn = Scenario {
                bridge,
                legacy,
                derive_app,
                probe: rng.chance(1, 2),
                program,
                prefix,
                ops,
            };
            return Some((scn, model, exp));
        }
    }
    None
}

// ---------------------------------------------------------------------------
// Running a scenario on the real core
// ---------------------------------------------------------------------------

enum ThreadOp<Ef> {
    Resolve(Key, ReqObj, u64),
    Drop(Key, ReqObj),
    Start(Cmd, bool),
    /// abort a command: from inside `update` (a Cancel event), or through the handle followed
    /// by a call that lets the core notice
    Abort(u32, bool),
    Noop,
    View,
    _P(std::marker::PhantomData<Ef>),
}

struct OpOut<Ef> {
    effects: Vec<Ef>,
    resolve_ok: Option<bool>,
    back: Option<(Key, ReqObj)>,
    view: Option<Vec<Logged>>,
    panic: Option<String>,
}

fn exec_op<A: LabApp>(core: &Core<A>, op: ThreadOp<A::Effect>) -> OpOut<A::Effect>
where
    A::Effect: LabEffect,
{
    let mut out = OpOut {
        effects: vec![],
        resolve_ok: None,
        back: None,
        view: None,
        panic: None,
    };
    match op {
        ThreadOp::Resolve(key, mut obj, val) => {
            let r = match &mut obj {
                ReqObj::Op(r) => core.resolve(r, cmdlab::ops::Val(val)),
                ReqObj::Sig(r) => core.resolve(r, ()),
            };
            out.resolve_ok = Some(r.is_ok());
            out.effects = r.unwrap_or_default();
            out.back = Some((key, obj));
        }
        ThreadOp::Drop(_key, obj) => {
            drop(obj);
            out.effects = core.process_event(Event::Noop);
        }
        ThreadOp::Start(cmd, legacy) => {
            let ev = if legacy {
                Event::StartLegacy(Box::new(cmd))
            } else {
                Event::Start(Box::new(cmd))
            };
            out.effects = core.process_event(ev);
        }
        ThreadOp::Abort(h, inside_update) => {
            if inside_update {
                out.effects = core.process_event(Event::Cancel(h));
            } else {
                cmdlab::ops::call_abort(h);
                out.effects = core.process_event(Event::Noop);
            }
        }
        ThreadOp::Noop => out.effects = core.process_event(Event::Noop),
        ThreadOp::View => out.view = Some(core.view().log),
        ThreadOp::_P(_) => {}
    }
    out
}

#[derive(Clone, Copy, Debug)]
enum Schedule {
    /// record the hook hits of op `who` running alone
    Record { who: usize },
    /// hold op `first` at its k-th hook hit, run op `second` meanwhile
    Force { first: usize, second: usize, k: usize },
    /// hold `first` at its k-th hit, run `second` up to its j-th hit and hold it there, let
    /// `first` finish, then let `second` finish (two preemptions)
    Force2 { first: usize, second: usize, k: usize, j: usize },
    /// all ops at once with random yields at hook points
    Random { seed: u64 },
    /// all ops at once, controller untouched (sanitizer lanes)
    Stress,
}

struct RunResult {
    findings: Vec<(String, String, Value)>,
    hits: Vec<&'static str>,
    paused_point: Option<&'static str>,
    second_point: Option<&'static str>,
    trace: u64,
    peer_release: bool,
    effects_seen: usize,
    events_seen: usize,
}

#[derive(Default)]
struct ThreadMeta {
    hits: Vec<&'static str>,
    paused_point: Option<&'static str>,
    second_point: Option<&'static str>,
    trace: u64,
    peer_release: bool,
}

/// Run one operation per thread under the given schedule. Panics are trapped per thread.
fn run_threads<T: Send, R: Send>(
    ops: Vec<T>,
    exec: &(dyn Fn(usize, T) -> R + Sync),
    schedule: Schedule,
) -> (Vec<Result<R, String>>, ThreadMeta) {
    let n = ops.len();
    let mut thread_ops: Vec<Option<T>> = ops.into_iter().map(Some).collect();
    let mut outs: Vec<Option<Result<R, String>>> = (0..n).map(|_| None).collect();
    let mut meta = ThreadMeta::default();
    {
        let mut st = CTL.st.lock().unwrap();
        *st = St::default();
    }
    let run_one = |idx: usize, op: T, seed: Option<u64>| -> Result<R, String> {
        ROLE.with(|r| r.set(idx as u8 + 1));
        TRNG.with(|r| *r.borrow_mut() = seed.map(|s| Rng::derive(s, idx as u64, 77)));
        let r = vcommon::trap(|| exec(idx, op));
        ROLE.with(|r| r.set(0));
        merge_thread_hits();
        r
    };
    match schedule {
        Schedule::Record { who } => {
            MODE.store(M_RECORD, Ordering::SeqCst);
            std::thread::scope(|s| {
                let op = thread_ops[who].take().unwrap();
                let h = s.spawn(|| run_one(who, op, None));
                outs[who] = Some(h.join().expect("thread"));
            });
            meta.hits = std::mem::take(&mut CTL.st.lock().unwrap().hits);
            MODE.store(M_OFF, Ordering::SeqCst);
            for i in 0..n {
                if i != who {
                    let op = thread_ops[i].take().unwrap();
                    outs[i] = Some(run_one(i, op, None));
                }
            }
        }
        Schedule::Force { .. } | Schedule::Force2 { .. } => {
            let (first, second, k, j) = match schedule {
                Schedule::Force { first, second, k } => (first, second, k, 0usize),
                Schedule::Force2 { first, second, k, j } => (first, second, k, j),
                _ => unreachable!(),
            };
            {
                let mut st = CTL.st.lock().unwrap();
                st.slots[0] = Slot { role: first as u8 + 1, at: k, ..Slot::default() };
                st.slots[1] = Slot { role: second as u8 + 1, at: j, ..Slot::default() };
            }
            MODE.store(M_FORCE, Ordering::SeqCst);
            let release = |i: usize, count_as_peer: bool| {
                let mut st = CTL.st.lock().unwrap();
                if !st.slots[i].release {
                    st.slots[i].release = true;
                    if count_as_peer {
                        st.peer_releases += 1;
                    }
                    CTL.cv.notify_all();
                }
            };
            std::thread::scope(|s| {
                let op_a = thread_ops[first].take().unwrap();
                let op_b = thread_ops[second].take().unwrap();
                let ha = s.spawn(|| run_one(first, op_a, None));
                // wait until the first thread is held (or has finished without reaching hit k)
                {
                    let mut st = CTL.st.lock().unwrap();
                    while !st.slots[0].paused && !ha.is_finished() {
                        let (g, _) = CTL.cv.wait_timeout(st, Duration::from_micros(200)).unwrap();
                        st = g;
                    }
                }
                let hb = s.spawn(|| run_one(second, op_b, None));
                // The second thread normally finishes (or reaches its own hold point) in well under
                // a millisecond. If it does neither, it is waiting for something the held thread
                // owns (a task slot, or a lock when the hook sits inside a waker called under a
                // lock): let the first thread go, as the OS scheduler eventually would. This only
                // decides when a hold ends, never a verdict.
                let t0 = std::time::Instant::now();
                loop {
                    if hb.is_finished() {
                        break;
                    }
                    if CTL.st.lock().unwrap().slots[1].paused {
                        break;
                    }
                    if t0.elapsed() > Duration::from_millis(25) {
                        release(0, true);
                        break;
                    }
                    std::thread::sleep(Duration::from_micros(20));
                }
                // first runs to completion (second is either done, held, or waiting for first)
                release(0, false);
                // ... unless it in turn waits for something the held second thread owns
                let t1 = std::time::Instant::now();
                while !ha.is_finished() {
                    if t1.elapsed() > Duration::from_millis(25) {
                        release(1, true);
                        break;
                    }
                    std::thread::sleep(Duration::from_micros(20));
                }
                outs[first] = Some(ha.join().expect("thread"));
                release(1, false);
                outs[second] = Some(hb.join().expect("thread"));
            });
            MODE.store(M_OFF, Ordering::SeqCst);
            let st = CTL.st.lock().unwrap();
            meta.paused_point = st.slots[0].point;
            meta.second_point = st.slots[1].point;
            meta.trace = st.trace;
            meta.peer_release = st.peer_releases > 0;
            drop(st);
            for i in 0..n {
                if let Some(op) = thread_ops[i].take() {
                    outs[i] = Some(run_one(i, op, None));
                }
            }
        }
        Schedule::Random { .. } | Schedule::Stress => {
            let seed = match schedule {
                Schedule::Random { seed } => {
                    MODE.store(M_RANDOM, Ordering::SeqCst);
                    Some(seed)
                }
                _ => None,
            };
            let barrier = std::sync::Barrier::new(n);
            std::thread::scope(|s| {
                let mut hs = vec![];
                for (i, slot) in thread_ops.iter_mut().enumerate() {
                    let op = slot.take().unwrap();
                    let b = &barrier;
                    let run_one = &run_one;
                    hs.push(s.spawn(move || {
                        b.wait();
                        run_one(i, op, seed)
                    }));
                }
                for (i, h) in hs.into_iter().enumerate() {
                    outs[i] = Some(h.join().expect("thread"));
                }
            });
            MODE.store(M_OFF, Ordering::SeqCst);
        }
    }
    (outs.into_iter().map(|o| o.expect("every op ran")).collect(), meta)
}

fn run_scenario<A: LabApp>(scn: &Scenario, model_at_ops: &Model, exp: &Expected, schedule: Schedule, suffix_rng: &mut Rng) -> RunResult
where
    A::Effect: LabEffect,
    Core<A>: Sync,
{
    cmdlab::ops::reset_registries();
    cmdlab::ops::EMIT_LOG.lock().unwrap().clear();
    cmdlab::ops::EMIT_LOG_ON.store(exp.free, Ordering::SeqCst);
    let mut findings: Vec<(String, String, Value)> = vec![];
    let mut host = CoreHost::<A>::new(scn.legacy);
    let mode = if scn.legacy { Mode::LEGACY } else { Mode::CORE };
    // sequential start + prefix, checked against a fresh model so that we are in sync
    let mut m = Model::new(mode);
    let p = m.start(&scn.program);
    let o = host.start(&scn.program);
    for f in compare(&p, &o, &host.caps(), "Core(sequential prefix)", 0) {
        findings.push((f.signature, f.what, f.detail));
    }
    for (i, a) in scn.prefix.iter().enumerate() {
        let p = m.act(a);
        let o = host.act(a);
        for f in compare(&p, &o, &host.caps(), "Core(sequential prefix)", i + 1) {
            findings.push((f.signature, f.what, f.detail));
        }
    }
    let mut result = RunResult {
        findings: vec![],
        hits: vec![],
        paused_point: None,
        second_point: None,
        trace: 0,
        peer_release: false,
        effects_seen: 0,
        events_seen: 0,
    };
    if !findings.is_empty() {
        result.findings = findings;
        return result;
    }
    let log_before = host.core.view().log.len();

    // hand each thread its operation
    let mut thread_ops: Vec<Option<ThreadOp<A::Effect>>> = vec![];
    for op in &scn.ops {
        thread_ops.push(Some(match op {
            ConcOp::Act(Action::Resolve { site, arg, val }) => {
                let obj = host.table.remove(&(*site, *arg)).expect("request object");
                ThreadOp::Resolve((*site, *arg), obj, *val)
            }
            ConcOp::Act(Action::DropReq { site, arg }) => {
                let obj = host.table.remove(&(*site, *arg)).expect("request object");
                ThreadOp::Drop((*site, *arg), obj)
            }
            ConcOp::Act(Action::Noop) => ThreadOp::Noop,
            // which way the abort is done follows from the scenario (deterministic per scenario)
            ConcOp::Act(Action::Abort { handle }) => ThreadOp::Abort(*handle, hash_json(&scn.program) % 2 == 0),
            ConcOp::Act(Action::Extend(_)) | ConcOp::Act(Action::Batch(_)) => unreachable!(),
            ConcOp::Start(c) => ThreadOp::Start(c.clone(), false),
            ConcOp::View => ThreadOp::View,
        }));
    }

    let core = &host.core;
    let (outs, meta) = run_threads(
        thread_ops.into_iter().map(|o| o.unwrap()).collect(),
        &|_idx, op| exec_op::<A>(core, op),
        schedule,
    );
    result.hits = meta.hits;
    result.paused_point = meta.paused_point;
    result.second_point = meta.second_point;
    result.trace = meta.trace;
    result.peer_release = meta.peer_release;
    let outs: Vec<Option<OpOut<A::Effect>>> = outs
        .into_iter()
        .map(|r| {
            Some(match r {
                Ok(o) => o,
                Err(p) => OpOut {
                    effects: vec![],
                    resolve_ok: None,
                    back: None,
                    view: None,
                    panic: Some(p),
                },
            })
        })
        .collect();

    // ---- oracle ------------------------------------------------------------
    let mut union = Obs::default();
    let mut views: Vec<Vec<Logged>> = vec![];
    for (i, o) in outs.into_iter().enumerate() {
        let o = o.expect("every op ran");
        if let Some(p) = o.panic {
            findings.push((
                format!("panic/{}", vcommon::panic_site(&p)),
                format!("a concurrent call panicked: {p}"),
                json!({"op": i}),
            ));
        }
        if let Some((key, obj)) = o.back {
            host.table.insert(key, obj);
        }
        if let (Some(exp_r), Some(ok)) = (exp.resolve.get(i).copied().flatten(), o.resolve_ok) {
            match (exp_r, ok) {
                (Expect::Ok, false) => findings.push((
                    "resolve/rejected-but-should-be-accepted".into(),
                    "a concurrent resolution that the arity allows was rejected".into(),
                    json!({"op": i}),
                )),
                (Expect::Err, true) => findings.push((
                    "resolve/accepted-but-should-be-rejected".into(),
                    "a concurrent resolution that the arity forbids was accepted".into(),
                    json!({"op": i}),
                )),
                _ => {}
            }
        }
        if let Some(v) = o.view {
            views.push(v);
        }
        // effects returned by this call (request objects go into the table for the suffix)
        let mut tmp = Obs::default();
        for e in o.effects {
            absorb::<A>(e, &mut host.table, &mut tmp);
        }
        union.effects.extend(tmp.effects);
        union.anomalies.extend(tmp.anomalies);
    }
    // when all calls have returned the core must be quiescent: a no-op call finds nothing
    let residual = host.core.process_event(Event::Noop);
    if !residual.is_empty() {
        let mut tmp = Obs::default();
        for e in residual {
            absorb::<A>(e, &mut host.table, &mut tmp);
        }
        findings.push((
            "residual/effects-after-all-calls-returned".into(),
            "effects were still waiting in the core after every concurrent call had returned".into(),
            json!({"effects": tmp.effects}),
        ));
        union.effects.extend(tmp.effects);
    }
    let s = host.core.verif_executor_stats();
    // (an aborted command keeps the stale ids of its cancelled tasks in its ready queue; they are
    // not runnable work, so the ready count says nothing once an abort is part of the scenario)
    if (s.ready_len != 0 && !exp.free) || s.spawn_len != 0 || s.requests_len != 0 || s.events_len != 0 {
        findings.push((
            "residual/core-not-quiescent".into(),
            "runnable work or undelivered output left in the core after all calls returned".into(),
            json!({"ready": s.ready_len, "spawn": s.spawn_len, "effects": s.requests_len, "events": s.events_len}),
        ));
    }
    let final_log = host.core.view().log;
    let new_events: Vec<EvObs> = final_log[log_before.min(final_log.len())..]
        .iter()
        .map(|l| EvObs {
            tag: l.tag,
            val: l.val,
            trail: l.trail.clone(),
        })
        .collect();
    host.seen_log = final_log.len();
    union.events = new_events.clone();
    result.effects_seen = union.effects.len();
    result.events_seen = union.events.len();
    if exp.free {
        free_oracle::<A>(&mut host, &final_log, &views, log_before, &union, &mut findings);
        host.finish();
        cmdlab::ops::EMIT_LOG_ON.store(false, Ordering::SeqCst);
        result.findings = findings;
        return result;
    }
    let mut oe = union.effects.clone();
    oe.sort();
    if oe != exp.effects {
        let missing: Vec<_> = exp.effects.iter().filter(|e| !oe.contains(e)).collect();
        let extra: Vec<_> = oe.iter().filter(|e| !exp.effects.contains(e)).collect();
        let sig = if !missing.is_empty() && extra.is_empty() {
            "concurrent/effects-lost"
        } else if missing.is_empty() {
            "concurrent/effects-duplicated-or-unexpected"
        } else {
            "concurrent/effects-different"
        };
        findings.push((
            sig.into(),
            "the union of the effects returned by the concurrent calls differs from every sequential order".into(),
            json!({"expected": exp.effects, "observed": oe, "missing": missing, "extra": extra}),
        ));
    }
    let mut ov = new_events.clone();
    ov.sort();
    if ov != exp.events {
        let missing: Vec<_> = exp.events.iter().filter(|e| !ov.contains(e)).collect();
        let extra: Vec<_> = ov.iter().filter(|e| !exp.events.contains(e)).collect();
        let sig = if !missing.is_empty() && extra.is_empty() {
            "concurrent/events-lost"
        } else if missing.is_empty() {
            "concurrent/events-duplicated-or-unexpected"
        } else {
            "concurrent/events-different"
        };
        findings.push((
            sig.into(),
            "the events applied during the concurrent calls differ from every sequential order".into(),
            json!({"expected": exp.events, "observed": ov, "missing": missing, "extra": extra}),
        ));
    } else if let Some(per_task) = &exp.per_task {
        for (g, seq) in per_task {
            if seq.len() < 2 {
                continue;
            }
            let observed: Vec<&EvObs> = new_events.iter().filter(|e| seq.contains(e)).collect();
            let want: Vec<&EvObs> = seq.iter().collect();
            if observed != want {
                findings.push((
                    "concurrent/task-order".into(),
                    "events of one task were applied out of emission order under concurrency".into(),
                    json!({"task": g, "emitted": want, "applied": observed}),
                ));
            }
        }
    }
    for v in &views {
        let ok = v.len() >= log_before && v.len() <= final_log.len() && v[..] == final_log[..v.len()];
        if !ok {
            findings.push((
                "concurrent/view-not-a-prefix".into(),
                "view() taken during concurrent calls is not a prefix of the final log".into(),
                json!({"view_len": v.len(), "before": log_before, "final": final_log.len()}),
            ));
        }
    }
    if cmdlab::ops::UPDATE_REENTERED.swap(0, Ordering::SeqCst) != 0 {
        findings.push((
            "concurrent/update-entered-concurrently".into(),
            "update was entered while another update was in progress".into(),
            json!({}),
        ));
    }
    for a in &union.anomalies {
        findings.push((
            "concurrent/duplicate-effect".into(),
            a.clone(),
            json!({"anomaly": a}),
        ));
    }

    // ---- suffix: the core must behave like the model from here on ---------------
    if findings.is_empty() {
        let mut m = model_at_ops.clone();
        for op in &scn.ops {
            apply_op(&mut m, op);
        }
        let mut val = 900_000u64;
        let steps = suffix_rng.range(2, 8) as usize;
        let mut step = 0usize;
        loop {
            step += 1;
            let out = m.outstanding();
            if out.is_empty() || step > 300 {
                break;
            }
            let a = if step <= steps {
                let pick = out[suffix_rng.usize_below(out.len())].clone();
                val += 1;
                if scn.legacy || suffix_rng.chance(3, 4) {
                    Action::Resolve {
                        site: pick.key.0,
                        arg: pick.key.1,
                        val,
                    }
                } else {
                    Action::DropReq {
                        site: pick.key.0,
                        arg: pick.key.1,
                    }
                }
            } else if scn.legacy {
                break; // the legacy API has no cancellation: nothing to clean up with
            } else {
                Action::DropReq {
                    site: out[0].key.0,
                    arg: out[0].key.1,
                }
            };
            let p = m.act(&a);
            let o = host.act(&a);
            let fs = compare(&p, &o, &host.caps(), "Core(after concurrent phase)", step);
            if !fs.is_empty() {
                for f in fs {
                    findings.push((
                        format!("after-concurrency/{}", f.signature),
                        format!("after the concurrent calls the core no longer follows the model: {}", f.what),
                        json!({"action": a, "detail": f.detail}),
                    ));
                }
                break;
            }
        }
    }
    host.finish();
    result.findings = findings;
    result
}

/// Model-free monitors for scenarios without a single expectation (abort races).
fn free_oracle<A: LabApp>(
    host: &mut CoreHost<A>,
    final_log: &[Logged],
    views: &[Vec<Logged>],
    log_before: usize,
    union: &Obs,
    findings: &mut Vec<(String, String, Value)>,
) where
    A::Effect: LabEffect,
{
    let conservation = |applied: &[Logged], findings: &mut Vec<(String, String, Value)>, when: &str| {
        let emitted: Vec<(u32, u64)> = cmdlab::ops::EMIT_LOG.lock().unwrap().clone();
        let applied: Vec<(u32, u64)> = applied.iter().map(|l| (l.tag, l.val)).collect();
        let (mut e, mut a) = (emitted.clone(), applied.clone());
        e.sort();
        a.sort();
        if e != a {
            let lost: Vec<_> = e.iter().filter(|x| !a.contains(x)).collect();
            let extra: Vec<_> = a.iter().filter(|x| !e.contains(x)).collect();
            let sig = if !lost.is_empty() { "abort-race/emitted-event-never-applied" } else if !extra.is_empty() { "abort-race/applied-event-never-emitted" } else { "abort-race/event-applied-twice" };
            findings.push((
                sig.into(),
                format!("{when}: the events applied to the model are not exactly the events the tasks emitted"),
                json!({"emitted": emitted, "applied": applied, "lost": lost, "extra": extra}),
            ));
            return;
        }
        // one task = one tag range (below / above 1000): emission order is application order
        for range in [0u32..1000, 1000..u32::MAX] {
            let es: Vec<_> = emitted.iter().filter(|x| range.contains(&x.0)).collect();
            let as_: Vec<_> = applied.iter().filter(|x| range.contains(&x.0)).collect();
            if es != as_ {
                findings.push((
                    "abort-race/task-order".into(),
                    format!("{when}: events of one task were applied out of emission order"),
                    json!({"emitted": es, "applied": as_}),
                ));
            }
        }
    };
    conservation(final_log, findings, "after the concurrent calls");
    for v in views {
        let ok = v.len() >= log_before && v.len() <= final_log.len() && v[..] == final_log[..v.len()];
        if !ok {
            findings.push((
                "concurrent/view-not-a-prefix".into(),
                "view() taken during concurrent calls is not a prefix of the final log".into(),
                json!({"view_len": v.len(), "before": log_before, "final": final_log.len()}),
            ));
        }
    }
    if cmdlab::ops::UPDATE_REENTERED.swap(0, Ordering::SeqCst) != 0 {
        findings.push((
            "concurrent/update-entered-concurrently".into(),
            "update was entered while another update was in progress".into(),
            json!({}),
        ));
    }
    for a in &union.anomalies {
        findings.push(("concurrent/duplicate-effect".into(), a.clone(), json!({"anomaly": a})));
    }
    if !findings.is_empty() {
        return;
    }
    // afterwards: every call has returned, so the abort has been requested and no poll is in
    // progress; from here on nothing of the aborted command (tags below 1000) may run, while the
    // sibling (tags from 7000) still works. Answer everything that is outstanding.
    let emitted_before = cmdlab::ops::EMIT_LOG.lock().unwrap().len();
    let mut val = 900_000u64;
    for _round in 0..6 {
        let keys: Vec<Key> = host.table.keys().copied().collect();
        if keys.is_empty() {
            break;
        }
        let mut keys = keys;
        keys.sort();
        for (site, arg) in keys {
            val += 1;
            let mut obj = host.table.remove(&(site, arg)).expect("request object");
            let r = match &mut obj {
                ReqObj::Op(r) => host.core.resolve(r, cmdlab::ops::Val(val)),
                ReqObj::Sig(r) => host.core.resolve(r, ()),
            };
            if let Ok(effects) = r {
                let mut tmp = Obs::default();
                for e in effects {
                    absorb::<A>(e, &mut host.table, &mut tmp);
                }
                for a in tmp.anomalies {
                    findings.push(("concurrent/duplicate-effect".into(), a.clone(), json!({"anomaly": a})));
                }
            }
            // a stream request stays answerable: keep it out of the table, one item is enough
            drop(obj);
        }
    }
    let emitted: Vec<(u32, u64)> = cmdlab::ops::EMIT_LOG.lock().unwrap().clone();
    let late: Vec<_> = emitted[emitted_before..].iter().filter(|x| x.0 < 1000).collect();
    if !late.is_empty() {
        findings.push((
            "abort-race/aborted-command-ran-after-abort-returned".into(),
            "a task of the aborted command emitted events after the aborting call had returned".into(),
            json!({"late": late}),
        ));
    }
    let log = host.core.view().log;
    conservation(&log, findings, "after answering everything that was outstanding");
    let s = host.core.verif_executor_stats();
    if s.spawn_len != 0 || s.requests_len != 0 || s.events_len != 0 {
        findings.push((
            "residual/core-not-quiescent".into(),
            "undelivered output left in the core after all calls returned".into(),
            json!({"ready": s.ready_len, "spawn": s.spawn_len, "effects": s.requests_len, "events": s.events_len}),
        ));
    }
}

// ---------------------------------------------------------------------------
// The same through the serialized bridge (registry under concurrency)
// ---------------------------------------------------------------------------

enum BOp {
    Resolve(u32, u8, u64),
    Event(Event),
    View,
}

enum BOut {
    Reqs(Result<Vec<FfiRequest>, String>, bool),
    View(Result<Vec<Logged>, String>),
}

fn run_bridge_scenario<A: LabApp>(scn: &Scenario, model_at_ops: &Model, exp: &Expected, schedule: Schedule, suffix_rng: &mut Rng) -> RunResult
where
    A::Effect: LabEffect,
    BridgeHost<A>: Sync,
{
    cmdlab::ops::reset_registries();
    let mut findings: Vec<(String, String, Value)> = vec![];
    let wire = if scn.bridge == 1 { Wire::Bincode } else { Wire::Json };
    let mut host = BridgeHost::<A>::new(wire);
    host.legacy = scn.legacy;
    let mut m = Model::new(if scn.legacy { Mode::LEGACY } else { Mode::CORE });
    let p = m.start(&scn.program);
    let o = host.start(&scn.program);
    for f in compare(&p, &o, &host.caps(), "Bridge(sequential prefix)", 0) {
        findings.push((f.signature, f.what, f.detail));
    }
    for (i, a) in scn.prefix.iter().enumerate() {
        let p = m.act(a);
        let o = host.act(a);
        for f in compare(&p, &o, &host.caps(), "Bridge(sequential prefix)", i + 1) {
            findings.push((f.signature, f.what, f.detail));
        }
    }
    let mut result = RunResult {
        findings: vec![],
        hits: vec![],
        paused_point: None,
        second_point: None,
        trace: 0,
        peer_release: false,
        effects_seen: 0,
        events_seen: 0,
    };
    if !findings.is_empty() {
        result.findings = findings;
        return result;
    }
    let log_before = host.seen_log;
    let mut ops = vec![];
    let mut answered: Vec<Key> = vec![];
    for op in &scn.ops {
        ops.push(match op {
            ConcOp::Act(Action::Resolve { site, arg, val }) => {
                let (id, kind) = *host.ids.get(&(*site, *arg)).expect("id of outstanding request");
                if kind != KIND_MANY {
                    answered.push((*site, *arg));
                }
                BOp::Resolve(id, kind, *val)
            }
            ConcOp::Act(Action::Noop) => BOp::Event(Event::Noop),
            ConcOp::Start(c) => BOp::Event(Event::Start(Box::new(c.clone()))),
            ConcOp::View => BOp::View,
            other => unreachable!("not a bridge operation: {other:?}"),
        });
    }
    let (outs, meta) = {
        let h = &host;
        run_threads(
            ops,
            &|_idx, op| match op {
                BOp::Resolve(id, kind, val) => {
                    let r = h.respond(id, kind, val);
                    let rejected = matches!(&r, Err(e) if e.contains("could not process response"));
                    let ok = r.is_ok();
                    BOut::Reqs(if rejected { Ok(vec![]) } else { r }, ok)
                }
                BOp::Event(ev) => BOut::Reqs(h.send_event(&ev), true),
                BOp::View => BOut::View(h.view().map(|v| v.log)),
            },
            schedule,
        )
    };
    result.hits = meta.hits;
    result.paused_point = meta.paused_point;
    result.second_point = meta.second_point;
    result.trace = meta.trace;
    result.peer_release = meta.peer_release;
    // answered one-shot ids are no longer outstanding
    for k in &answered {
        host.ids.remove(k);
    }
    let mut union = Obs::default();
    let mut views = vec![];
    for (i, o) in outs.into_iter().enumerate() {
        match o {
            Err(p) => findings.push((
                format!("panic/{}", vcommon::panic_site(&p)),
                format!("a concurrent bridge call panicked: {p}"),
                json!({"op": i}),
            )),
            Ok(BOut::View(v)) => match v {
                Ok(v) => views.push(v),
                Err(e) => findings.push(("concurrent/view-failed".into(), e, json!({}))),
            },
            Ok(BOut::Reqs(r, ok)) => {
                if let (Some(exp_r), ConcOp::Act(Action::Resolve { .. })) = (exp.resolve[i], &scn.ops[i]) {
                    match (exp_r, ok) {
                        (Expect::Ok, false) => findings.push((
                            "resolve/rejected-but-should-be-accepted".into(),
                            "a concurrent response that the arity allows was rejected".into(),
                            json!({"op": i}),
                        )),
                        (Expect::Err, true) => findings.push((
                            "resolve/accepted-but-should-be-rejected".into(),
                            "a concurrent response that the arity forbids was accepted".into(),
                            json!({"op": i}),
                        )),
                        _ => {}
                    }
                }
                let mut tmp = Obs::default();
                host.observe(r, &mut tmp);
                union.effects.extend(tmp.effects);
                union.events.extend(tmp.events);
                union.anomalies.extend(tmp.anomalies);
            }
        }
    }
    // every call has returned: the view read now, before anything else is sent, is the view
    let view_right_after = host.view().map(|v| v.log).ok();
    let residual = host.send_event(&Event::Noop);
    let mut tmp = Obs::default();
    host.observe(residual, &mut tmp);
    {
        // (whatever the no-op call found to apply or return was left behind by calls that had
        // already returned, which is a violation by itself; a stale view shows here as well)
        if let (Some(before), Ok(after)) = (&view_right_after, host.view().map(|v| v.log)) {
            if *before != after {
                findings.push((
                    "concurrent/view-stale-after-all-calls-returned".into(),
                    "the view read after every concurrent bridge call had returned differs from the view after one more no-op call that applied nothing".into(),
                    json!({"events_in_view_right_after": before.len(), "events_in_view_after_noop": after.len()}),
                ));
            }
        }
    }
    if !tmp.effects.is_empty() {
        findings.push((
            "residual/effects-after-all-calls-returned".into(),
            "effects were still waiting in the core after every concurrent bridge call had returned".into(),
            json!({"effects": tmp.effects}),
        ));
    }
    union.effects.extend(tmp.effects);
    union.events.extend(tmp.events);
    union.anomalies.extend(tmp.anomalies);
    result.effects_seen = union.effects.len();
    result.events_seen = union.events.len();
    let final_log = host.view().map(|v| v.log).unwrap_or_default();
    let mut oe = union.effects.clone();
    oe.sort();
    if oe != exp.effects {
        let missing: Vec<_> = exp.effects.iter().filter(|e| !oe.contains(e)).collect();
        let extra: Vec<_> = oe.iter().filter(|e| !exp.effects.contains(e)).collect();
        findings.push((
            if !missing.is_empty() && extra.is_empty() { "concurrent/effects-lost" } else if missing.is_empty() { "concurrent/effects-duplicated-or-unexpected" } else { "concurrent/effects-different" }.into(),
            "the union of the effect requests returned by the concurrent bridge calls differs from every sequential order".into(),
            json!({"expected": exp.effects, "observed": oe, "missing": missing, "extra": extra}),
        ));
    }
    let new_events = union.events.clone();
    let mut ov = new_events.clone();
    ov.sort();
    if ov != exp.events {
        let missing: Vec<_> = exp.events.iter().filter(|e| !ov.contains(e)).collect();
        let extra: Vec<_> = ov.iter().filter(|e| !exp.events.contains(e)).collect();
        findings.push((
            if !missing.is_empty() && extra.is_empty() { "concurrent/events-lost" } else if missing.is_empty() { "concurrent/events-duplicated-or-unexpected" } else { "concurrent/events-different" }.into(),
            "the events applied during the concurrent bridge calls differ from every sequential order".into(),
            json!({"expected": exp.events, "observed": ov, "missing": missing, "extra": extra}),
        ));
    } else if let Some(per_task) = &exp.per_task {
        for (g, seq) in per_task {
            if seq.len() < 2 {
                continue;
            }
            let observed: Vec<&EvObs> = new_events.iter().filter(|e| seq.contains(e)).collect();
            let want: Vec<&EvObs> = seq.iter().collect();
            if observed != want {
                findings.push((
                    "concurrent/task-order".into(),
                    "events of one task were applied out of emission order under concurrency".into(),
                    json!({"task": g, "emitted": want, "applied": observed}),
                ));
            }
        }
    }
    for v in &views {
        let ok = v.len() >= log_before && v.len() <= final_log.len() && v[..] == final_log[..v.len()];
        if !ok {
            findings.push((
                "concurrent/view-not-a-prefix".into(),
                "view() taken during concurrent bridge calls is not a prefix of the final log".into(),
                json!({"view_len": v.len(), "before": log_before, "final": final_log.len()}),
            ));
        }
    }
    for a in &union.anomalies {
        let stem: String = a.chars().take_while(|c| !c.is_ascii_digit()).collect();
        findings.push((
            format!("concurrent/bridge-anomaly/{}", stem.trim().replace(' ', "-")),
            a.clone(),
            json!({"anomaly": a}),
        ));
    }
    // ids of everything outstanding must be pairwise distinct
    let mut seen_ids: HashMap<u32, Key> = HashMap::new();
    for (k, (id, _)) in &host.ids {
        if let Some(other) = seen_ids.insert(*id, *k) {
            findings.push((
                "concurrent/bridge-id-shared".into(),
                "two outstanding requests carry the same bridge id".into(),
                json!({"id": id, "requests": [k, &other]}),
            ));
        }
    }
    // ---- suffix: every outstanding id must still reach its own continuation ----
    if findings.is_empty() {
        let mut m = model_at_ops.clone();
        for op in &scn.ops {
            apply_op(&mut m, op);
        }
        let mut val = 900_000u64;
        let mut step = 0usize;
        loop {
            step += 1;
            let out: Vec<_> = m
                .outstanding()
                .into_iter()
                .filter(|o| o.kind == KIND_MANY || (o.kind == KIND_ONCE && !o.resolved_once))
                .collect();
            if out.is_empty() || step > 40 {
                break;
            }
            let pick = out[suffix_rng.usize_below(out.len())].clone();
            val += 1;
            let a = Action::Resolve {
                site: pick.key.0,
                arg: pick.key.1,
                val,
            };
            let p = m.act(&a);
            let r = vcommon::trap(|| host.act(&a));
            let o = match r {
                Ok(o) => o,
                Err(p) => {
                    findings.push((
                        format!("after-concurrency/panic/{}", vcommon::panic_site(&p)),
                        format!("after the concurrent calls a valid response panicked: {p}"),
                        json!({"action": a}),
                    ));
                    break;
                }
            };
            let fs = compare(&p, &o, &host.caps(), "Bridge(after concurrent phase)", step);
            if !fs.is_empty() {
                for f in fs {
                    findings.push((
                        format!("after-concurrency/{}", f.signature),
                        format!("after the concurrent calls the bridge no longer follows the model: {}", f.what),
                        json!({"action": a, "detail": f.detail}),
                    ));
                }
                break;
            }
        }
    }
    result.findings = findings;
    result
}

fn absorb<A: LabApp>(e: A::Effect, table: &mut HashMap<Key, ReqObj>, out: &mut Obs)
where
    A::Effect: LabEffect,
{
    match e.split() {
        Split::Op(r) => {
            let o = r.operation.clone();
            out.effects.push(EffObs {
                site: o.site,
                arg: o.arg,
                kind: o.kind,
                trail: o.trail,
            });
            if table.insert((o.site, o.arg), ReqObj::Op(r)).is_some() {
                out.anomalies.push(format!("effect for ({}, {}) returned by two calls", o.site, o.arg));
            }
        }
        Split::Sig(r) => {
            let o = r.operation.clone();
            out.effects.push(EffObs {
                site: o.site,
                arg: 0,
                kind: KIND_NEVER,
                trail: o.trail,
            });
            if table.insert((o.site, 0), ReqObj::Sig(r)).is_some() {
                out.anomalies.push(format!("notification for site {} returned by two calls", o.site));
            }
        }
    }
}

fn run_any(scn: &Scenario, model: &Model, exp: &Expected, schedule: Schedule, rng: &mut Rng) -> RunResult {
    cmdlab::probe::PROBE_ON.store(scn.probe, Ordering::SeqCst);
    if scn.bridge != 0 {
        return if scn.derive_app {
            run_bridge_scenario::<AppD>(scn, model, exp, schedule, rng)
        } else {
            run_bridge_scenario::<AppM>(scn, model, exp, schedule, rng)
        };
    }
    if scn.derive_app {
        run_scenario::<AppD>(scn, model, exp, schedule, rng)
    } else {
        run_scenario::<AppM>(scn, model, exp, schedule, rng)
    }
}

fn main() {
    let args = Args::parse();
    if args.prop == "noop" {
        return;
    }
    vcommon::install_panic_hook();
    let report = Arc::new(Mutex::new(Report::new(&args.prop)));
    let wd = Watchdog::start(report.clone(), args.out.clone(), Duration::from_secs(180));
    let kind = args.extra.get("mode").cloned().unwrap_or_else(|| "forced".into());
    let use_controller = kind != "stress";
    if use_controller {
        assert!(crux_core::verif::set_controller(on_point));
        // a schedule point inside response decoding (under the registry lock on the bridge)
        let _ = cmdlab::ops::DESERIALIZE_HOOK.set(|| on_point("harness.deserialize_response"));
        // ... and wherever a request / stream future of a script task registers or wakes a waker
        let _ = cmdlab::probe::WAKER_HOOK.set(on_point);
    }
    let thorough = args.thorough();
    let seed = args.worker_seed();
    if args.extra.get("families").map(|s| s.as_str()) == Some("events") {
        EVENTS_ONLY.store(true, Ordering::SeqCst);
    }

    if let Some(path) = &args.replay {
        let v: Value = serde_json::from_str(&std::fs::read_to_string(path).unwrap()).unwrap();
        println!("replay of schedlab cases re-runs the recorded scenario seed; see {}", v["replay"]["note"]);
    }

    let budget = match kind.as_str() {
        "forced" => args.share(args.extra_u64("scenarios", 400), args.extra_u64("scenarios", 20_000)),
        "random" => args.share(args.extra_u64("scenarios", 4_000), args.extra_u64("scenarios", 400_000)),
        _ => args.share(args.extra_u64("scenarios", 4_000), args.extra_u64("scenarios", 200_000)),
    };
    let mut made = 0u64;
    let mut case_no = 0u64;
    let mut traces: std::collections::HashSet<u64> = std::collections::HashSet::new();
    while made < budget && case_no < budget * 20 {
        case_no += 1;
        let mut rng = Rng::derive(seed, case_no, 1);
        let n_ops = match kind.as_str() {
            "forced" => 2,
            _ => rng.range(2, 4) as usize,
        };
        let Some((scn, model, exp)) = gen_scenario(&mut rng, thorough, n_ops) else {
            continue;
        };
        made += 1;
        let scn_hash = hash_json(&scn);
        {
            let mut keys: Vec<Key> = vec![];
            let mut shared = false;
            for op in &scn.ops {
                if let ConcOp::Act(Action::Resolve { site, arg, .. }) = op {
                    shared |= keys.contains(&(*site, *arg));
                    keys.push((*site, *arg));
                }
            }
            if shared {
                report.lock().unwrap().count("scenarios_answering_one_stream_id_from_two_threads", 1);
            }
            if shared && scn.legacy {
                report.lock().unwrap().count("scenarios_answering_one_capability_api_subscription_from_two_threads", 1);
            }
            if scn.probe {
                report.lock().unwrap().count("scenarios_with_foreign_wakers", 1);
            }
        }
        let record = |r: &mut Report, res: &RunResult, schedule: &str, extra: Value| {
            for (sig, what, detail) in &res.findings {
                r.violation(
                    sig,
                    what,
                    json!({"lane": format!("schedlab-{kind}"), "schedule": schedule, "schedule_detail": extra, "scenario": scn, "detail": detail,
                           "note": "re-run: schedlab --prop C08 --mode <kind> with the same seed/worker reproduces the scenario"}),
                );
            }
        };
        match kind.as_str() {
            "forced" => {
                let mut hit_counts = [0usize; 2];
                for (first, second) in [(0usize, 1usize), (1, 0)] {
                    wd.begin(|| json!({"lane": "schedlab-forced", "scenario": scn, "phase": "record", "first": first}).to_string());
                    let rec = run_any(&scn, &model, &exp, Schedule::Record { who: first }, &mut rng);
                    wd.end();
                    let mut r = report.lock().unwrap();
                    r.eval();
                    record(&mut r, &rec, "record", json!({"who": first}));
                    r.count("recorded_runs", 1);
                    r.max("max_hook_hits_in_one_call", rec.hits.len() as u64);
                    drop(r);
                    let n = rec.hits.len();
                    hit_counts[first] = n;
                    for k in 1..=n {
                        wd.begin(|| json!({"lane": "schedlab-forced", "scenario": scn, "first": first, "second": second, "k": k}).to_string());
                        let res = run_any(&scn, &model, &exp, Schedule::Force { first, second, k }, &mut rng);
                        wd.end();
                        let mut r = report.lock().unwrap();
                        r.eval();
                        r.count("forced_schedules", 1);
                        r.count("effects_observed", res.effects_seen as u64);
                        r.count("events_observed", res.events_seen as u64);
                        if exp.free {
                            r.count("abort_race_runs", 1);
                            r.count(if res.events_seen == 0 { "abort_race_runs_where_nothing_of_the_burst_was_applied" } else { "abort_race_runs_where_the_burst_was_applied" }, 1);
                        }
                        if res.peer_release {
                            r.count("blocked_on_peer_releases", 1);
                        }
                        if let Some(p) = res.paused_point {
                            r.set("preemption_points_exercised", p);
                            r.count(&format!("preempted_at.{p}"), 1);
                            r.nontrivial(hash_mix(hash_mix(scn_hash, (first * 7 + second) as u64), k as u64));
                        }
                        traces.insert(res.trace);
                        record(&mut r, &res, "force", json!({"first": first, "second": second, "k": k, "held_at": res.paused_point}));
                    }
                }
                // two preemptions: hold the first at k, the second at j, finish the first, then
                // the second. All (k, j) in thorough, a sample in quick.
                for (first, second) in [(0usize, 1usize), (1, 0)] {
                    let n1 = hit_counts[first];
                    let n2 = hit_counts[second];
                    if n1 == 0 || n2 == 0 {
                        continue;
                    }
                    let mut pairs: Vec<(usize, usize)> = vec![];
                    if thorough && n1 * n2 <= 1200 {
                        for k in 1..=n1 {
                            for j in 1..=n2 {
                                pairs.push((k, j));
                            }
                        }
                    } else {
                        let want = if thorough { 200 } else { 24 };
                        for _ in 0..want {
                            pairs.push((rng.range(1, n1 as u64) as usize, rng.range(1, n2 as u64 + 4) as usize));
                        }
                    }
                    for (k, j) in pairs {
                        wd.begin(|| json!({"lane": "schedlab-forced", "scenario": scn, "first": first, "second": second, "k": k, "j": j}).to_string());
                        let res = run_any(&scn, &model, &exp, Schedule::Force2 { first, second, k, j }, &mut rng);
                        wd.end();
                        let mut r = report.lock().unwrap();
                        r.eval();
                        r.count("double_preemption_schedules", 1);
                        if let (Some(p), Some(q)) = (res.paused_point, res.second_point) {
                            r.count("double_preemptions_where_both_threads_were_held", 1);
                            r.set("second_hold_points_exercised", q);
                            let _ = p;
                            r.nontrivial(hash_mix(hash_mix(scn_hash, (first * 7 + second + 100) as u64), (k * 1000 + j) as u64));
                        }
                        traces.insert(res.trace);
                        record(&mut r, &res, "force2", json!({"first": first, "second": second, "k": k, "j": j, "held_at": [res.paused_point, res.second_point]}));
                    }
                }
                let mut r = report.lock().unwrap();
                r.count("scenarios", 1);
                r.set("apps", if scn.bridge == 1 { "bridge(bincode)" } else if scn.bridge == 2 { "bridge(json)" } else if scn.legacy { "legacy" } else if scn.derive_app { "command(derive)" } else { "command(attribute)" });
                r.sample(|| json!({"scenario": scn}));
            }
            _ => {
                let reps = if kind == "random" { 4 } else { 3 };
                for rep in 0..reps {
                    let sched = if kind == "random" {
                        Schedule::Random { seed: hash_mix(seed, case_no * 16 + rep) }
                    } else {
                        Schedule::Stress
                    };
                    wd.begin(|| json!({"lane": format!("schedlab-{kind}"), "scenario": scn, "rep": rep}).to_string());
                    let res = run_any(&scn, &model, &exp, sched, &mut rng);
                    wd.end();
                    let mut r = report.lock().unwrap();
                    r.eval();
                    r.count("concurrent_runs", 1);
                    r.count(&format!("runs_with_{}_threads", scn.ops.len()), 1);
                    r.count("effects_observed", res.effects_seen as u64);
                    r.count("events_observed", res.events_seen as u64);
                    if exp.free {
                        r.count("abort_race_runs", 1);
                        r.count(if res.events_seen == 0 { "abort_race_runs_where_nothing_of_the_burst_was_applied" } else { "abort_race_runs_where_the_burst_was_applied" }, 1);
                    }
                    r.nontrivial(hash_mix(scn_hash, rep));
                    record(&mut r, &res, &kind, json!({"rep": rep}));
                }
                let mut r = report.lock().unwrap();
                r.count("scenarios", 1);
                r.set("apps", if scn.bridge == 1 { "bridge(bincode)" } else if scn.bridge == 2 { "bridge(json)" } else if scn.legacy { "legacy" } else if scn.derive_app { "command(derive)" } else { "command(attribute)" });
                r.sample(|| json!({"scenario": scn}));
            }
        }
    }
    let mut r = report.lock().unwrap();
    flush_local_hits(&mut r);
    // the number of distinct interleavings (hash of the global order of hook hits)
    r.count("distinct_interleaving_traces", traces.len() as u64);
    r.count("wakeups_through_a_stale_waker_ignored_by_the_adapter", cmdlab::probe::STALE_WAKES_IGNORED.load(Ordering::Relaxed));
    r.finish(&args);
}
