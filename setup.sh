#!/bin/bash
# MANIFEST.setup_cmd: offline pre-build of the stable lane of the harness from files on disk
# only (the sanitizer lanes build on first use; each check rebuilds incrementally anyway).
set -e
here="$(cd "$(dirname "$0")" && pwd)"
cd "$here/harness"
export RUSTUP_TOOLCHAIN=stable-x86_64-unknown-linux-gnu CARGO_NET_OFFLINE=true
export CARGO_TARGET_DIR=/verif/target/stable
cargo build --release --offline --workspace 2>&1 | tail -3
# remember which content of /repo this lane was built from (see scripts/tree_sig.py)
python3 "$here/scripts/tree_sig.py" mark "$CARGO_TARGET_DIR"
